#!/bin/sh
# MANIFEST.setup_cmd: build the libTooling extractor from files on disk (offline).
set -e
cd "$(dirname "$0")"
mkdir -p build evidence/replay
if [ ! -x build/factdump ] || [ tools/factdump/factdump.cc -nt build/factdump ]; then
  clang++ $(llvm-config-14 --cxxflags) -fno-rtti -O1 tools/factdump/factdump.cc -o build/factdump \
    /usr/lib/llvm-14/lib/libclang-cpp.so.14 /usr/lib/llvm-14/lib/libLLVM-14.so
fi
echo "factdump built: $(ls -la build/factdump | awk '{print $5}') bytes"
