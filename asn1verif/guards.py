"""Guard analyses shared by several rules.

null_reachable: "assume the expression E is NULL/zero for the whole invocation; can control still reach the site?"
Every branch whose condition tests E (directly, negated, compared with 0/NULL, in either polarity, inside && / ||
chains and ?: — clang's CFG splits those into blocks) has its E-is-non-zero edge pruned.  If the site is still
reachable there is a path on which E is zero and the site executes.  This recognises if/else, early return,
continue, goto-cleanup and conditional-expression forms of a guard uniformly."""
from .model import strip_casts, tree_text, walk, is_var, const_of
from .retabs import cond_polarity


def canon(t):
    return tree_text(strip_casts(t))


def edges_given(f, subject_pred, fact):
    """(block id, succ index) edges that are infeasible when the subject satisfies `fact` ('zero' or 'nonzero')."""
    dead = set()
    opposite = {"zero": ("nonzero", "pos", "neg"), "nonzero": ("zero",)}[fact]
    for b in f.blocks.values():
        if not b.term or "cond" not in b.term:
            continue
        kind = b.term["kind"]
        tree = b.term["cond"]["tree"]
        if kind == "SwitchStmt":
            if subject_pred(strip_casts(tree)):
                for idx, s in enumerate(b.succ):
                    if s is None:
                        continue
                    lab = f.blocks[s].label or {}
                    if lab.get("kind") == "case" and "value" in lab:
                        if fact == "zero" and lab["value"] != 0:
                            dead.add((b.id, idx))
                        if fact == "nonzero" and lab["value"] == 0:
                            dead.add((b.id, idx))
            continue
        pol = cond_polarity(tree, subject_pred)
        if not pol:
            continue
        for idx, edge in ((0, "true"), (1, "false")):
            if idx < len(b.succ) and b.succ[idx] is not None and any(o in pol[edge] for o in opposite):
                dead.add((b.id, idx))
    return dead


def reach_path(f, start, target, dead_edges=(), stop_blocks=()):
    """BFS path of block ids from start to target avoiding dead edges; None if unreachable."""
    import collections
    prev = {start: None}
    dq = collections.deque([start])
    while dq:
        x = dq.popleft()
        if x == target:
            out = []
            while x is not None:
                out.append(x)
                x = prev[x]
            return out[::-1]
        if x in stop_blocks and x != start:
            continue
        b = f.blocks[x]
        for idx, s in enumerate(b.succ):
            if s is None or (x, idx) in dead_edges or s in prev:
                continue
            prev[s] = x
            dq.append(s)
    return None


def null_reachable(f, expr_tree, site_block):
    """Path (block ids) from entry to the site on which `expr_tree` is zero all along, or None if every path to the
    site goes through the non-zero edge of a test of the expression."""
    key = canon(expr_tree)

    def subj(t):
        return isinstance(t, list) and canon(t) == key
    dead = edges_given(f, subj, "zero")
    return reach_path(f, f.entry, site_block.id, dead)


def path_lines(f, path):
    out = []
    for bid in path or []:
        b = f.blocks[bid]
        ln = None
        for e in b.ev:
            if "line" in e:
                ln = e["line"]
                break
        if ln is None and b.term:
            ln = b.term.get("line")
        out.append({"block": bid, "line": ln})
    return out


def var_null_reachable(f, vid, def_block, def_idx, site_block):
    """From a definition of local `vid` that may be NULL: can the site be reached with vid still NULL (no
    reassignment, every test of vid taking its zero edge)?"""
    def subj(t):
        return is_var(t, vid)
    dead = edges_given(f, subj, "zero")
    redefs = set()
    for b, i, e in f.events():
        if (b.id, i) == (def_block.id, def_idx):
            continue
        if e["k"] == "assign" and e.get("base_id") == vid and e.get("lhs") == e.get("base") and not e.get("deref"):
            if b.id == def_block.id and i < def_idx:
                continue
            redefs.add(b.id)
    if def_block.id == site_block.id:
        return [def_block.id]
    return reach_path(f, def_block.id, site_block.id, dead, stop_blocks=redefs)
