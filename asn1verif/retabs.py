"""A3 return abstraction and A4 failure edges.

Decoder returns (`asn_dec_rval_t`): (code, consumed) where code in {OK, WMORE, FAIL, child:<callee>, unknown} and
consumed in {0, expr text, child}.  Encoder returns (`asn_enc_rval_t`): FAIL | OK | child.  Scalars by constant.
The classification follows data flow (last assignment to the returned object's fields on the straight-line
predecessor chain), so it does not depend on which macro produced the statements."""
from .model import strip_casts, is_var, const_of, walk, tree_text, tree_vars

RC = {0: "OK", 1: "WMORE", 2: "FAIL"}


def _back_events(f, b, i, maxhops=12):
    """events before (b,i) walking back through unique predecessors"""
    cur, idx, hops = b, i, 0
    seen = set()
    while cur is not None and hops < maxhops and cur.id not in seen:
        seen.add(cur.id)
        evs = cur.ev[:idx] if idx is not None else cur.ev
        for e in reversed(evs):
            yield e
        ps = cur.preds
        if len(ps) == 1:
            cur, idx = f.blocks[ps[0]], None
        else:
            cur = None
        hops += 1


def dec_return(f, b, i, e):
    """-> dict(code=str, consumed=str, via=call event or None)"""
    ex = e.get("expr")
    if not ex:
        return {"code": "void", "consumed": "void"}
    t = strip_casts(ex["tree"])
    if isinstance(t, list) and t and t[0] in ("call", "icall"):
        name = t[2] if t[0] == "call" else tree_text(t[2])
        return {"code": "child:" + name, "consumed": "child", "callid": t[1]}
    if not is_var(t):
        return {"code": "unknown", "consumed": "unknown"}
    vid = t[1]
    code = None
    consumed = None
    for x in _back_events(f, b, i):
        if x["k"] == "assign" and x.get("base_id") == vid and x.get("op") == "=":
            if x.get("field") == "code" and code is None:
                c = const_of(x["rhs"]["tree"])
                code = RC.get(c, "expr:" + x["rhs"]["text"]) if c is not None else "expr:" + x["rhs"]["text"]
            elif x.get("field") == "consumed" and consumed is None:
                c = const_of(x["rhs"]["tree"])
                consumed = "0" if c == 0 else x["rhs"]["text"]
            elif x.get("lhs") == x.get("base") and not x.get("deref"):
                # whole-object assignment: from a call (child) or another object
                r = strip_casts(x["rhs"]["tree"])
                if isinstance(r, list) and r and r[0] in ("call", "icall"):
                    name = r[2] if r[0] == "call" else tree_text(r[2])
                    if code is None:
                        code = "child:" + name
                    if consumed is None:
                        consumed = "child"
                    return {"code": code, "consumed": consumed, "callid": r[1]}
                break
        elif x["k"] == "decl" and x.get("id") == vid and "init" in x:
            r = strip_casts(x["init"]["tree"])
            if isinstance(r, list) and r and r[0] in ("call", "icall"):
                name = r[2] if r[0] == "call" else tree_text(r[2])
                return {"code": code or ("child:" + name), "consumed": consumed or "child", "callid": r[1]}
            break
        elif x["k"] == "call" and x.get("use") in ("assigned", "init"):
            ui = x.get("useinfo", {})
            lt = ui.get("lhs_tree")
            if (lt and is_var(lt, vid)) or ui.get("var") == vid:
                name = x.get("callee") or x.get("indirect")
                return {"code": code or ("child:" + name), "consumed": consumed or "child", "callid": x.get("id")}
        if code is not None and consumed is not None:
            break
    return {"code": code or "unknown", "consumed": consumed or "unknown"}


def enc_return(f, b, i, e):
    """-> 'FAIL' | 'OK' | 'child:<callee>' | 'unknown' for asn_enc_rval_t-returning functions"""
    ex = e.get("expr")
    if not ex:
        return "void"
    t = strip_casts(ex["tree"])
    if isinstance(t, list) and t and t[0] in ("call", "icall"):
        return "child:" + (t[2] if t[0] == "call" else tree_text(t[2]))
    if not is_var(t):
        return "unknown"
    vid = t[1]
    for x in _back_events(f, b, i):
        if x["k"] == "assign" and x.get("base_id") == vid:
            if x.get("field") == "encoded":
                if x.get("op") != "=":
                    return "OK"
                c = const_of(x["rhs"]["tree"])
                if c is not None:
                    return "FAIL" if c < 0 else "OK"
                return "OK"
            if x.get("field") in ("structure_ptr", "failed_type") and x.get("op") == "=":
                # ASN__ENCODED_OK zeroes both; ASN__ENCODE_FAILED sets them non-null after encoded=-1 — keep looking
                continue
            if x.get("lhs") == x.get("base") and not x.get("deref") and x.get("op") == "=":
                r = strip_casts(x["rhs"]["tree"])
                if isinstance(r, list) and r and r[0] in ("call", "icall"):
                    return "child:" + (r[2] if r[0] == "call" else tree_text(r[2]))
                return "unknown"
        elif x["k"] == "decl" and x.get("id") == vid and "init" in x:
            r = strip_casts(x["init"]["tree"])
            if isinstance(r, list) and r and r[0] in ("call", "icall"):
                return "child:" + (r[2] if r[0] == "call" else tree_text(r[2]))
            return "unknown"
    return "child:?" if True else "unknown"


def scalar_return(f, b, i, e):
    """-> ('const', n) | ('var', id) | ('call', name) | ('expr', text) | ('void',)"""
    ex = e.get("expr")
    if not ex:
        return ("void",)
    if "const" in ex:
        return ("const", ex["const"])
    t = strip_casts(ex["tree"])
    if is_var(t):
        return ("var", t[1])
    if isinstance(t, list) and t and t[0] == "call":
        return ("call", t[2])
    if isinstance(t, list) and t and t[0] == "cond":
        a, c = const_of(t[2]), const_of(t[3])
        return ("ternary", a, c, tree_text(t[1]))
    return ("expr", ex["text"])


# ------------------------------------------------------------------ A4: polarity of a condition w.r.t. a value
def cond_polarity(tree, is_subject):
    """Given a branch condition tree and a predicate recognising the tested subject (a tree -> bool), return
    a dict describing what the TRUE edge means for the subject: {'true': set of facts, 'false': set of facts}
    with facts among 'zero', 'nonzero', 'neg', 'nonneg', 'pos', 'nonpos', ('eq', c), ('ne', c)."""
    t = strip_casts(tree)
    if not isinstance(t, list) or not t:
        return None
    if is_subject(t):
        return {"true": {"nonzero"}, "false": {"zero"}}
    if t[0] == "un" and t[1] == "!":
        p = cond_polarity(t[2], is_subject)
        if p:
            return {"true": p["false"], "false": p["true"]}
        return None
    if t[0] == "bin" and t[1] in ("==", "!=", "<", "<=", ">", ">="):
        l, r = strip_casts(t[2]), strip_casts(t[3])
        op = t[1]
        if is_subject(r) and not is_subject(l):
            l, r = r, l
            op = {"<": ">", "<=": ">=", ">": "<", ">=": "<=", "==": "==", "!=": "!="}[op]
        if not is_subject(l):
            return None
        c = const_of(r)
        if c is None:
            return {"true": {("cmp", op, tree_text(r))}, "false": {("cmp", "!" + op, tree_text(r))}}
        return {"true": _facts(op, c), "false": _facts(_neg(op), c)}
    return None


def _neg(op):
    return {"==": "!=", "!=": "==", "<": ">=", ">=": "<", ">": "<=", "<=": ">"}[op]


def _facts(op, c):
    out = {(op, c)}
    if op == "==":
        out.add(("eq", c))
        if c == 0:
            out |= {"zero", "nonneg", "nonpos"}
        elif c < 0:
            out |= {"neg", "nonzero", "nonpos"}
        else:
            out |= {"pos", "nonzero", "nonneg"}
    elif op == "!=":
        out.add(("ne", c))
        if c == 0:
            out.add("nonzero")
    elif op == "<":
        if c <= 0:
            out |= {"neg", "nonzero", "nonpos"}
        elif c == 1:
            out |= {"nonpos"}
    elif op == "<=":
        if c < 0:
            out |= {"neg", "nonzero", "nonpos"}
        elif c == 0:
            out |= {"nonpos"}
    elif op == ">":
        if c >= 0:
            out |= {"pos", "nonzero", "nonneg"}
        elif c == -1:
            out |= {"nonneg"}
    elif op == ">=":
        if c > 0:
            out |= {"pos", "nonzero", "nonneg"}
        elif c == 0:
            out |= {"nonneg"}
    return out


# ------------------------------------------------------------------ path-merging return abstraction (dataflow)
def dec_returns(f):
    """For every return of an asn_dec_rval_t function: the set of (code, consumed) pairs the returned object may hold,
    by forward may-dataflow over the last assignments to its fields (correlated per object).
    code in OK/WMORE/FAIL/child:<callee>/expr:<text>/uninit; consumed in '0'/child/<expr text>/uninit."""
    from .dataflow import forward, MapState, join_maps

    def call_name(r):
        return r[2] if r[0] == "call" else tree_text(r[2])

    def transfer(st, b, i, e):
        if e["k"] == "decl" and "asn_dec_rval" in e.get("type", ""):
            if "init" in e:
                r = strip_casts(e["init"]["tree"])
                if isinstance(r, list) and r and r[0] in ("call", "icall"):
                    return st.with_(e["id"], {("child:" + call_name(r), "child")})
                if isinstance(r, list) and r and r[0] == "initlist" and len(r[1]) >= 1:
                    c = const_of(r[1][0])
                    code = RC.get(c, "expr:%s" % c) if c is not None else "expr:" + tree_text(r[1][0])
                    cons = "0"
                    if len(r[1]) > 1:
                        c2 = const_of(r[1][1])
                        cons = "0" if c2 == 0 else tree_text(r[1][1])
                    return st.with_(e["id"], {(code, cons)})
            return st.with_(e["id"], {("uninit", "uninit")})
        if e["k"] == "assign" and e.get("base_id") and not e.get("deref") and e.get("op") == "=":
            vid = e["base_id"]
            cur = st.get_set(vid)
            if e.get("lhs") == e.get("base"):
                r = strip_casts(e["rhs"]["tree"])
                if isinstance(r, list) and r and r[0] in ("call", "icall"):
                    if "asn_dec_rval" in e["rhs"].get("type", ""):
                        return st.with_(vid, {("child:" + call_name(r), "child")})
                    return st
                if is_var(r) and r[1] in st:
                    return st.with_(vid, st.get_set(r[1]))
                return st
            if not cur:
                if e.get("field") not in ("code", "consumed"):
                    return st
                cur = frozenset({("uninit", "uninit")})
            if e.get("field") == "code":
                c = const_of(e["rhs"]["tree"])
                if c is not None:
                    nv = RC.get(c, "expr:%d" % c)
                    return st.with_(vid, {(nv, x[1]) for x in cur})
                r = strip_casts(e["rhs"]["tree"])
                # copy of another object's code:  rval.code = tmp.code
                if isinstance(r, list) and r and r[0] == "member" and r[2] == "code" and is_var(r[1]) and strip_casts(r[1])[1] in st:
                    src = st.get_set(strip_casts(r[1])[1])
                    return st.with_(vid, {(s[0], x[1]) for x in cur for s in src})
                return st.with_(vid, {("expr:" + e["rhs"]["text"], x[1]) for x in cur})
            if e.get("field") == "consumed":
                c = const_of(e["rhs"]["tree"])
                nv = "0" if c == 0 else e["rhs"]["text"]
                return st.with_(vid, {(x[0], nv) for x in cur})
        if e["k"] == "assign" and e.get("base_id") and not e.get("deref") and e.get("field") == "consumed" and e.get("op") in ("+=", "-="):
            cur = st.get_set(e["base_id"])
            if cur:
                return st.with_(e["base_id"], {(x[0], x[1] + e["op"] + e["rhs"]["text"]) for x in cur})
        return st
    out = []

    def on_event(st, b, i, e):
        if e["k"] != "return":
            return
        ex = e.get("expr")
        if not ex:
            return
        t = strip_casts(ex["tree"])
        if isinstance(t, list) and t and t[0] in ("call", "icall"):
            out.append((b, i, e, {("child:" + call_name(t), "child")}))
        elif is_var(t):
            out.append((b, i, e, set(st.get_set(t[1])) or {("unknown", "unknown")}))
        else:
            out.append((b, i, e, {("unknown", "unknown")}))
    forward(f, MapState(), transfer, join_maps, on_event=on_event)
    return out
