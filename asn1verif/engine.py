"""Rule engine: instances, verdicts, known findings, evidence files, exit status."""
import json
import os
import sys
import time

from . import extract
from .extract import AnalysisBroken, VERIF
from .model import Program

PASS, VIOLATION, EXCEPTION, INFO = "pass", "violation", "exception", "info"


class Inst:
    """One rule instance: identity is (rule, file, function, key) — never a line number."""
    __slots__ = ("rule", "file", "function", "key", "verdict", "detail", "line", "nontrivial", "witness", "config")

    def __init__(self, rule, file, function, key, verdict, detail="", line=None, nontrivial=True, witness=None):
        self.rule, self.file, self.function, self.key = rule, file, function, key
        self.verdict, self.detail, self.line = verdict, detail, line
        self.nontrivial, self.witness = nontrivial, witness
        self.config = None

    def ident(self):
        return (self.rule, self.file, self.function, self.key)

    def as_dict(self):
        d = {"rule": self.rule, "file": self.file, "function": self.function, "key": self.key,
             "verdict": self.verdict}
        if self.detail:
            d["detail"] = self.detail
        if self.line is not None:
            d["line"] = self.line
        if self.config:
            d["config"] = self.config
        if self.witness is not None:
            d["witness"] = self.witness
        return d


class Rule:
    """A rule run: the clause it decides, the instances it enumerated, its floor."""

    def __init__(self, rid, clause, floor=1):
        self.id = rid
        self.clause = clause
        self.floor = floor
        self.insts = []
        self.notes = []

    def add(self, file, function, key, verdict, detail="", line=None, nontrivial=True, witness=None):
        i = Inst(self.id, file, function, key, verdict, detail, line, nontrivial, witness)
        self.insts.append(i)
        return i

    def ok(self, f, key, detail="", line=None, nontrivial=True):
        return self.add(f.relfile if hasattr(f, "relfile") else f, f.name if hasattr(f, "name") else "", key, PASS, detail, line, nontrivial)

    def bad(self, f, key, detail="", line=None, witness=None):
        return self.add(f.relfile if hasattr(f, "relfile") else f, f.name if hasattr(f, "name") else "", key, VIOLATION, detail, line, True, witness)

    def exc(self, f, key, reason, line=None):
        return self.add(f.relfile if hasattr(f, "relfile") else f, f.name if hasattr(f, "name") else "", key, EXCEPTION, reason, line, True)

    def note(self, s):
        self.notes.append(s)


class Context:
    """Lazily extracted program models, shared by the rules of one check run."""

    def __init__(self, tier="quick"):
        self.tier = tier
        self._progs = {}
        self.units = []

    def prog(self, unit, config="default", extra=()):
        k = (unit, config, tuple(extra))
        if k not in self._progs:
            tus, info = extract.extract(unit, config, extra)
            p = Program(tus, info)
            self._progs[k] = p
            self.units.append({"unit": unit, "config": config, "extra": list(extra), "tus": len(tus),
                               "functions": len(p.funcs), "blocks": sum(len(f.blocks) for f in p.funcs.values()),
                               "flags": info["flags"], "config_h": info["config_h"]})
        return self._progs[k]


def load_tables(name):
    p = os.path.join(VERIF, "tables", name + ".json")
    with open(p) as fh:
        return json.load(fh)


def load_known():
    p = os.path.join(VERIF, "known_findings.json")
    if not os.path.exists(p):
        return [], []
    with open(p) as fh:
        d = json.load(fh)
    return d.get("findings", []), d.get("fixed", [])


def _match_known(pid, inst, known):
    for k in known:
        if k.get("property") != pid:
            continue
        if k.get("rule") == inst.rule and k.get("function") == inst.function and k.get("key") == inst.key \
                and k.get("file", inst.file) == inst.file:
            return k
    return None


def run_property(pid, module, tier, explain=None, extra_runs=None):
    """Runs the rules of one property, prints the protocol lines, writes evidence, returns exit status."""
    t0 = time.time()
    seed = int(os.environ.get("VERIF_SEED", "0") or 0)
    ctx = Context(tier)
    evdir = os.path.join(VERIF, "evidence")
    os.makedirs(os.path.join(evdir, "replay"), exist_ok=True)
    evpath = os.path.join(evdir, pid + ".json")
    try:
        rules = module.run(ctx)
        selftest = None
        if tier == "thorough" and hasattr(module, "thorough"):
            more = module.thorough(ctx)
            if more:
                rules = rules + [r for r in more if isinstance(r, Rule)]
                selftest = [r for r in more if not isinstance(r, Rule)]
        for r in rules:
            n = len(r.insts)
            if n < r.floor:
                raise AnalysisBroken("rule %s enumerated %d instances, below its floor %d (anchor vanished or "
                                     "extractor out of step with the code)" % (r.id, n, r.floor))
    except AnalysisBroken as ex:
        print("ANALYSIS-BROKEN property=%s %s" % (pid, ex))
        ev = {"property_id": pid, "tier": tier, "seed": seed, "level": "other",
              "coverage": {"explanation": "analysis broken: %s" % ex, "evaluations": 0, "distinct_nontrivial": 0,
                           "samples": []},
              "assumptions": [], "wall_s": round(time.time() - t0, 2), "violations": 0}
        with open(evpath, "w") as fh:
            json.dump(ev, fh, indent=1)
        return 2

    known, fixed = load_known()
    violations = []
    known_hits = []
    insts = [i for r in rules for i in r.insts]
    for i in insts:
        if i.verdict == VIOLATION:
            k = _match_known(pid, i, known)
            if k:
                known_hits.append((i, k))
            else:
                violations.append(i)
    # de-duplicate identical identities across configurations
    seen = set()
    uniq_v = []
    for i in violations:
        if i.ident() in seen:
            continue
        seen.add(i.ident())
        uniq_v.append(i)
    seen = set()
    for i, k in known_hits:
        if i.ident() in seen:
            continue
        seen.add(i.ident())
        print("KNOWN-FINDING: property=%s %s %s:%s %s -- %s" % (pid, i.rule, i.file, i.function, i.key,
                                                                 k.get("what_fails", "")))
    # remove stale replay files of this property
    rdir = os.path.join(evdir, "replay")
    for fn in os.listdir(rdir):
        if fn.startswith(pid + "-"):
            os.unlink(os.path.join(rdir, fn))
    for n, i in enumerate(uniq_v):
        rp = os.path.join(rdir, "%s-%d.json" % (pid, n))
        with open(rp, "w") as fh:
            json.dump({"property": pid, "instance": i.as_dict(),
                       "rule_clause": next(r.clause for r in rules if r.id == i.rule),
                       "how_to_read": "file/function/key identify the construct in /repo; witness (if present) is "
                                      "the CFG path or call path that violates the rule"}, fh, indent=1)
        print("%s:%s: %s: %s [%s] %s" % (i.file, i.line if i.line is not None else "?", i.rule, i.function, i.key, i.detail))
        print("VIOLATION property=%s replay=%s" % (pid, os.path.relpath(rp, VERIF)))

    per_rule = []
    for r in rules:
        c = {"pass": 0, "violation": 0, "exception": 0, "info": 0}
        for i in r.insts:
            c[i.verdict] = c.get(i.verdict, 0) + 1
        per_rule.append({"rule": r.id, "clause": r.clause, "instances": len(r.insts), "floor": r.floor,
                         "verdicts": c, "notes": r.notes})
    distinct = len({i.ident() for i in insts if i.nontrivial})
    samples = []
    for r in rules:
        for i in r.insts[:3]:
            samples.append(i.as_dict())
        for i in r.insts:
            if i.verdict in (VIOLATION, EXCEPTION) and len(samples) < 200:
                d = i.as_dict()
                if d not in samples:
                    samples.append(d)
    for s in samples:
        s.pop("witness", None)
    cov = {
        "explanation": getattr(module, "EXPLANATION", ""),
        "obligations": len(insts),
        "discharged": sum(1 for i in insts if i.verdict in (PASS, EXCEPTION, INFO)),
        "evaluations": len(insts),
        "distinct_nontrivial": distinct,
        "rule": "every instance of every rule is enumerated from the extracted program model of /repo's working "
                "tree; an instance is non-trivial when its verdict needed a CFG, dataflow or call-graph query; "
                "identity is (rule,file,function,key)",
        "samples": samples,
        "exhaustive": True,
        "rules": per_rule,
        "units_analysed": ctx.units,
        "known_findings_matched": [{"rule": i.rule, "function": i.function, "key": i.key} for i, _ in known_hits],
        "checker_cmd": "./check %s --tier %s" % (pid, tier),
        "trusted_base": ["clang 14 front end and clang::CFG", "compile commands in asn1verif/extract.py",
                         "idiom/exception tables under /verif/tables (each row has a reason)"],
        "not_decided": getattr(module, "NOT_DECIDED", ""),
    }
    if selftest is not None:
        cov["selftest"] = selftest
    ev = {"property_id": pid, "tier": tier, "seed": seed, "level": "other", "coverage": cov,
          "assumptions": getattr(module, "ASSUMPTIONS", []) + [
              "generated C (asn1c output for a user's module) is not analysed",
              "this decides the named structural clauses (necessary conditions), not the behaviour as a whole"],
          "wall_s": round(time.time() - t0, 2), "violations": len(uniq_v)}
    with open(evpath, "w") as fh:
        json.dump(ev, fh, indent=1)
    st_fail = False
    if selftest:
        for s in selftest:
            if not s.get("ok", True):
                st_fail = True
                print("SELFTEST-FAILED property=%s %s" % (pid, json.dumps(s)))
    total = len(insts)
    print("checked property=%s tier=%s rules=%d instances=%d violations=%d known=%d wall=%.1fs" % (
        pid, tier, len(rules), total, len(uniq_v), len({i.ident() for i, _ in known_hits}), time.time() - t0))
    if uniq_v:
        return 1
    if st_fail:
        return 2
    return 0
