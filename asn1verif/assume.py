"""Assume-and-reach: "suppose this call's result is a failure value v; which returns can control still reach?"

The result of a call lives in a *subject*: the call expression itself when tested in place, or the lvalue it was
stored in (`er`, tested as `er.encoded`; `ret`).  Every branch condition that mentions the subject is evaluated under
subject == v and its contradicted edge is pruned; `&&`/`||`/`?:` are already separate CFG blocks.  Tracking stops
being precise when the subject is overwritten (then no pruning is applied any more: the failure information is gone,
so any success return reached from there is a lost failure)."""
import collections

from .model import strip_casts, is_var, const_of, walk, tree_text


def eval_under(tree, subj, v, env=None):
    """Value of `tree` (int/bool as int) under subject == v (and the constants in env: {(var id, None): int}),
    or None when it does not depend only on them."""
    t = strip_casts(tree)
    if not isinstance(t, list) or not t:
        return None
    if subj is not None and subj(t):
        return v
    if env and t[0] == "var":
        x = env.get((t[1], None))
        if isinstance(x, int):
            return x
    c = const_of(t)
    if c is not None:
        return c
    k = t[0]
    if k == "un":
        x = eval_under(t[2], subj, v, env)
        if x is None:
            return None
        if t[1] == "!":
            return int(not x)
        if t[1] == "-":
            return -x
        if t[1] == "~":
            return ~x
        if t[1] == "+":
            return x
        return None
    if k == "bin":
        op = t[1]
        a, b = eval_under(t[2], subj, v, env), eval_under(t[3], subj, v, env)
        if op == "&&":
            if a == 0 or b == 0:
                return 0
            if a is not None and b is not None:
                return 1
            return None
        if op == "||":
            if (a is not None and a != 0) or (b is not None and b != 0):
                return 1
            if a == 0 and b == 0:
                return 0
            return None
        if a is None or b is None:
            return None
        try:
            return {"==": lambda: int(a == b), "!=": lambda: int(a != b), "<": lambda: int(a < b),
                    "<=": lambda: int(a <= b), ">": lambda: int(a > b), ">=": lambda: int(a >= b),
                    "+": lambda: a + b, "-": lambda: a - b, "&": lambda: a & b, "|": lambda: a | b,
                    "*": lambda: a * b}[op]()
        except KeyError:
            return None
    if k == "cond":
        c = eval_under(t[1], subj, v, env)
        if c is None:
            return None
        return eval_under(t[2] if c else t[3], subj, v, env)
    return None


def mentions(tree, subj):
    return any(subj(n) for n in walk(tree))


class Subject:
    """What holds the call result."""

    def __init__(self, kind, callid=None, var=None, field=None, lhs_text=None):
        self.kind, self.callid, self.var, self.field, self.lhs_text = kind, callid, var, field, lhs_text

    def pred(self, holders=None):
        if holders is not None and self.kind != "call" and self.var is not None:
            fld = self.field
            al = set(holders)

            def pa(t):
                if fld:
                    return isinstance(t, list) and t and t[0] == "member" and t[2] == fld and is_var(t[1]) and strip_casts(t[1])[1] in al
                return is_var(t) and strip_casts(t)[1] in al
            return pa
        if self.kind == "call":
            cid, fld = self.callid, self.field

            def p(t):
                if fld:
                    return isinstance(t, list) and t and t[0] == "member" and t[2] == fld and \
                        isinstance(strip_casts(t[1]), list) and strip_casts(t[1])[0] in ("call", "icall") and strip_casts(t[1])[1] == cid
                return isinstance(t, list) and t and t[0] in ("call", "icall") and t[1] == cid
            return p
        vid, fld, lt = self.var, self.field, self.lhs_text

        def p(t):
            if vid is None:
                return isinstance(t, list) and tree_text(t) == lt
            if fld:
                return isinstance(t, list) and t and t[0] == "member" and t[2] == fld and is_var(t[1], vid)
            return is_var(t, vid)
        return p

    def overwritten_by(self, e):
        """does event e overwrite the subject (losing the value)? `|=` keeps a failure (-1 | x == -1)."""
        if self.kind == "call":
            return False
        if e["k"] == "assign":
            if self.var is not None and e.get("base_id") == self.var and not e.get("deref"):
                whole = e.get("lhs") == e.get("base")
                samefield = self.field and e.get("field") == self.field
                if whole or samefield or (not self.field):
                    if e.get("op") == "|=":
                        return False
                    return True
            elif self.var is None and e.get("lhs") == self.lhs_text:
                return e.get("op") != "|="
        elif e["k"] == "call" and self.var is not None:
            # address passed to a callee that may overwrite it
            for a in e.get("args", []):
                t = strip_casts(a.get("tree"))
                if isinstance(t, list) and t and t[0] == "un" and t[1] == "&" and is_var(t[2], self.var):
                    return True
        return False

    def returned_by(self, e, aliases=None):
        ex = e.get("expr")
        if not ex:
            return False
        t = strip_casts(ex["tree"])
        if aliases is not None and self.kind != "call" and self.var is not None:
            if is_var(t):
                return t[1] in aliases
            return bool(self.field) and isinstance(t, list) and t[0] == "member" and is_var(t[1]) and strip_casts(t[1])[1] in aliases
        if self.kind == "call":
            return any(n[0] in ("call", "icall") and n[1] == self.callid for n in walk(t))
        if self.var is not None:
            return is_var(t, self.var) or (self.field and isinstance(t, list) and t[0] == "member" and is_var(t[1], self.var))
        return tree_text(t) == self.lhs_text


def subject_of_call(e, struct_field=None):
    """Subject for the result of call event e, or None when the result is not held anywhere (discarded etc.)."""
    use = e.get("use")
    ui = e.get("useinfo", {})
    if use in ("cond", "compared", "switch", "returned", "member", "operand", "arg", "comma_rhs"):
        return Subject("call", callid=e["id"], field=ui.get("field") if use == "member" else None)
    if use in ("assigned", "init", "compound_assigned"):
        if ui.get("var"):
            return Subject("var", var=ui["var"], field=struct_field)
        lt = ui.get("lhs_tree")
        if lt is not None and is_var(lt):
            return Subject("var", var=strip_casts(lt)[1], field=struct_field)
        lts = strip_casts(lt) if lt is not None else None
        if isinstance(lts, list) and lts and lts[0] == "member" and not lts[3] and is_var(lts[1]):
            # stored into a field of a local object: `erval.encoded = f()`
            return Subject("var", var=strip_casts(lts[1])[1], field=lts[2])
        if lt is not None:
            return Subject("var", var=None, field=None, lhs_text=tree_text(lt))
    return None


def _stores_call(e, callid):
    """is event e the assignment/initialisation that stores the result of call `callid`?"""
    tree = None
    if e["k"] == "assign" and "rhs" in e:
        tree = e["rhs"]["tree"]
    elif e["k"] == "decl" and "init" in e:
        tree = e["init"]["tree"]
    if tree is None:
        return False
    return any(n[0] in ("call", "icall") and n[1] == callid for n in walk(tree))


# ------------------------------------------------------------------ correlated-branch facts
_REL = {"<": {"LT"}, "<=": {"LT", "EQ"}, ">": {"GT"}, ">=": {"GT", "EQ"}, "==": {"EQ"}, "!=": {"LT", "GT"}}
_FLIP = {"<": ">", "<=": ">=", ">": "<", ">=": "<=", "==": "==", "!=": "!="}
_ALL = {"LT", "EQ", "GT"}


def _norm_cmp(tree):
    """condition -> (lhs_text, op, rhs) with rhs an int constant or text; truthiness `x` -> (x, '!=', 0)."""
    t = strip_casts(tree)
    if not isinstance(t, list) or not t:
        return None
    if t[0] == "un" and t[1] == "!":
        n = _norm_cmp(t[2])
        if n is None:
            return None
        a, op, b = n
        neg = {"<": ">=", ">=": "<", ">": "<=", "<=": ">", "==": "!=", "!=": "=="}[op]
        return (a, neg, b)
    if t[0] == "bin" and t[1] in _REL:
        l, r = strip_casts(t[2]), strip_casts(t[3])
        cl, cr = const_of(l), const_of(r)
        if cl is not None and cr is None:
            return (tree_text(r), _FLIP[t[1]], cl)
        if cr is not None:
            return (tree_text(l), t[1], cr)
        a, b = tree_text(l), tree_text(r)
        if a <= b:
            return (a, t[1], b)
        return (b, _FLIP[t[1]], a)
    if t[0] in ("var", "member", "sub", "call", "icall") or (t[0] == "un" and t[1] == "*") or (t[0] == "bin" and t[1] in ("&", "-", "+")):
        return (tree_text(t), "!=", 0)
    return None


def _sat(op, x, c):
    return {"<": x < c, "<=": x <= c, ">": x > c, ">=": x >= c, "==": x == c, "!=": x != c}[op]


def fact_query(facts, tree):
    """facts: iterable of ((lhs, op, rhs), vars). Returns True/False/None for the condition tree, combining every
    fact known about the same left-hand side."""
    q = _norm_cmp(tree)
    if q is None:
        return None
    qa, qop, qb = q
    same = [f[0] for f in facts if f[0][0] == qa]
    if not same:
        return None
    if isinstance(qb, int):
        cf = [(op, b) for (_a, op, b) in same if isinstance(b, int)]
        if cf:
            pts = {qb - 1, qb, qb + 1, -(1 << 40), 1 << 40}
            for _op, c in cf:
                pts |= {c - 1, c, c + 1}
            sat = [x for x in pts if all(_sat(op, x, c) for op, c in cf)]
            if sat and all(_sat(qop, x, qb) for x in sat):
                return True
            if sat and not any(_sat(qop, x, qb) for x in sat):
                return False
        return None
    F = set(_ALL)
    hit = False
    for (_a, op, b) in same:
        if b == qb:
            F &= _REL[op]
            hit = True
    if not hit or not F:
        return None
    Q = _REL[qop]
    if F <= Q:
        return True
    if not (F & Q):
        return False
    return None


def _fact_of(tree, truth):
    n = _norm_cmp(tree)
    if n is None:
        return None
    a, op, b = n
    if not truth:
        op = {"<": ">=", ">=": "<", ">": "<=", "<=": ">", "==": "!=", "!=": "=="}[op]
    vs = frozenset(v.split("@")[0] for v in _vars_of(tree))
    if any(x[0] in ("call", "icall") for x in walk(tree)):
        return None
    return ((a, op, b), vs)


def _vars_of(tree):
    return {n[1] for n in walk(tree) if n[0] == "var"}


def _kill(facts, e):
    """facts surviving event e.  A store *through* a pointer (p->x = .., *p = .., p[i] = ..) does not change the
    pointer itself: facts that are only about the pointer's own value (p != 0) survive it."""
    if not facts:
        return facts
    killed = set()
    through = set()
    if e["k"] == "assign":
        if e.get("base"):
            (through if e.get("deref") else killed).add(e["base"])
    elif e["k"] == "decl":
        killed.add(e["var"])
    elif e["k"] == "call":
        for a in e.get("args", []):
            t = strip_casts(a.get("tree"))
            if isinstance(t, list) and t and t[0] == "un" and t[1] == "&":
                for v in _vars_of(t):
                    killed.add(v.split("@")[0])
    if not killed and not through:
        return facts

    def survives(f):
        (a, _op, b), vs = f
        if vs & killed:
            return False
        if vs & through:
            # keep only facts about the pointer variable itself
            return a in through and (isinstance(b, int) or b in through) and len(vs) == 1
        return True
    return tuple(f for f in facts if survives(f))


def relevant_vars(f, extra_calls=(), through_calls=True):
    """variables whose constant value can decide a return: those in return expressions (and exit() arguments), and
    transitively the variables copied or counted into them"""
    R = set()
    for b, i, e in f.events():
        if e["k"] == "return" and e.get("expr"):
            R |= _vars_of(e["expr"]["tree"])
        elif e["k"] == "call" and e.get("callee") in extra_calls:
            for a in e.get("args", []):
                R |= _vars_of(a.get("tree"))
    changed = True
    while changed:
        changed = False
        for b, i, e in f.events():
            tgt = tree = None
            if e["k"] == "assign" and e.get("base_id") and not e.get("deref") and "rhs" in e:
                tgt, tree = e["base_id"], e["rhs"]["tree"]
            elif e["k"] == "decl" and "init" in e:
                tgt, tree = e["id"], e["init"]["tree"]
            if tgt in R:
                if not through_calls and isinstance(strip_casts(tree), list) and strip_casts(tree) and strip_casts(tree)[0] in ("call", "icall"):
                    continue        # a call's result is opaque: its arguments do not decide the return value
                new = _vars_of(tree) - R
                if new:
                    R |= new
                    changed = True
    return R


def explore(f, start_block, start_idx, subject, value, classify_return, max_states=40000, origin_callid=None, from_entry=True,
            terminal_calls=None, forbidden_calls=(), subject_return_ok=True, rel_facts_only=False, stop_blocks=(), dead_edges=()):
    """Walk every path from the function entry through the site (start_block,start_idx); after the site assume
    subject == value.  Branch conditions are decided (a) under the assumption when they mention the subject,
    (b) by the facts collected from the branches already taken on this path (correlated branches: `edx < n` at the
    loop header decides `edx == n` after a break).  The constant last assigned to each (variable, field) on the path
    is tracked so that `er.encoded = -1; ...; return er;` classifies as a failing return.
    classify_return(block, idx, event, env) -> 'fail' | 'success' | 'unknown:...'.
    Returns list of (kind, block, idx, event, path, lost) for non-failing returns reached after the site."""
    subj = subject.pred()
    out = []
    seen = set()
    dq = collections.deque()
    REL = relevant_vars(f, tuple(terminal_calls or ()))
    REL_NAMES = {v.split("@")[0] for v in relevant_vars(f, tuple(terminal_calls or ()), through_calls=False)} if rel_facts_only else set()
    LIVE = f.liveness()
    LIVE_NAMES = {bid: {v.split("@")[0] for v in vs} for bid, vs in LIVE.items()}
    # variables currently holding the result (the variable it was stored in, then whole-object copies of it)
    holders0 = frozenset({subject.var}) if (subject.kind != "call" and subject.var is not None) else frozenset()
    # state: block, pos, phase(0 before site,1 after), lost, facts, env, path
    if from_entry:
        dq.append((f.entry, 0, 0, False, (), frozenset(), (f.entry,), False, holders0))
    else:
        dq.append((start_block.id, start_idx + 1, 1, False, (), frozenset(), (start_block.id,), False, holders0))
    n = 0
    reported = set()
    while dq:
        bid, pos, phase, lost, facts, env, path, forced, aliases = dq.popleft()
        subj = subject.pred(aliases if holders0 else None)
        n += 1
        if n > max_states:
            out.append(("unknown:state-limit", f.blocks[bid], 0, {"line": None}, path, lost))
            break
        b = f.blocks[bid]
        stop = False
        envd = None
        # `fresh`: still in the straight-line code right after this execution of the call (where its result is stored);
        # when the same call site is reached again in a loop, its assignment overwrites the assumed result
        fresh = (not from_entry) and bid == start_block.id and pos == start_idx + 1 and len(path) == 1
        for i in range(pos, len(b.ev)):
            e = b.ev[i]
            if phase == 0 and bid == start_block.id and i == start_idx:
                phase = 1
                fresh = True
                continue
            if e["k"] == "return":
                if phase == 1:
                    if subject_return_ok and not lost and subject.returned_by(e, aliases):
                        stop = True
                        break
                    if subject_return_ok and e.get("expr") and "rval" not in f.ret_type and not f.ret_type.rstrip().endswith("*"):
                        rv = eval_under(e["expr"]["tree"], None if lost else subj, value, dict(env))
                        if rv is not None and rv < 0:
                            stop = True
                            break
                    envx = dict(env)
                    envx[("__facts__", None)] = facts
                    kind = classify_return(b, i, e, envx)
                    if kind != "fail" and (b.id, i) not in reported:
                        reported.add((b.id, i))
                        out.append((kind, b, i, e, path, lost))
                stop = True
                break
            if phase == 1 and e["k"] == "call" and e.get("callee") in forbidden_calls and (b.id, i) not in reported:
                reported.add((b.id, i))
                out.append(("forbidden:" + e["callee"], b, i, e, path, lost))
            if e["k"] == "call" and terminal_calls and e.get("callee") in terminal_calls:
                # exit(n): a process exit with status n, classified through the constants known on this path
                if phase == 1:
                    ai = terminal_calls[e["callee"]]
                    val = eval_under(e["args"][ai]["tree"], None, None, dict(env)) if ai < len(e["args"]) else None
                    kind = "fail" if (val is not None and val != 0) else ("success" if val == 0 else "unknown:exit-status")
                    if kind != "fail" and (b.id, i) not in reported:
                        reported.add((b.id, i))
                        out.append((kind, b, i, e, path, lost))
                stop = True
                break
            if e["k"] == "call" and e.get("callee") in ("__assert_fail", "abort"):
                # reported only when the branch into the assert was decided by the assumption itself
                if phase == 1 and forced and (b.id, i) not in reported:
                    reported.add((b.id, i))
                    out.append(("abort", b, i, e, path, lost))
                stop = True
                break
            facts = _kill(facts, e)
            if e["k"] == "assign" and e.get("base_id") and not e.get("deref"):
                c = const_of(e["rhs"]["tree"]) if (e.get("op") == "=" and "rhs" in e) else None
                fld = e.get("field") if e.get("lhs") != e.get("base") else None
                envd = dict(env)
                if c is None and e.get("op") == "=" and "rhs" in e:
                    rv_ = strip_casts(e["rhs"]["tree"])
                    if is_var(rv_) and isinstance(envd.get((rv_[1], None)), int):
                        c = envd[(rv_[1], None)]        # copy of a variable whose constant value is known on this path
                    elif isinstance(rv_, list) and rv_ and rv_[0] == "member" and not rv_[3] and is_var(rv_[1]) \
                            and isinstance(envd.get((strip_casts(rv_[1])[1], rv_[2])), int):
                        c = envd[(strip_casts(rv_[1])[1], rv_[2])]      # copy of a field of a local object with a known constant
                if c is None and fld is None and e.get("op") in ("++", "++post", "+=") and isinstance(envd.get((e["base_id"], None)), int):
                    inc = 1 if e.get("op") != "+=" else const_of(e["rhs"]["tree"])
                    if isinstance(inc, int) and inc > 0 and envd[(e["base_id"], None)] >= 0:
                        c = min(2, envd[(e["base_id"], None)] + inc)     # saturating counter: 2 stands for "2 or more"
                val = c if c is not None else "nonconst"
                if isinstance(c, int) and fld is None and e.get("lhs") == e.get("base"):
                    # a constant stored in a scalar is also a fact for later branches on it (after _kill removed the old ones)
                    fo = ((e["base"], "==", c), frozenset({e["base"]}))
                    facts = tuple([x for x in facts if x != fo] + [fo])[-32:]
                if e["base_id"] in REL:
                    if fld is None:
                        for k in [k for k in envd if k[0] == e["base_id"]]:
                            del envd[k]
                        if e.get("op") == "=" and "rhs" in e:
                            r = strip_casts(e["rhs"]["tree"])
                            if isinstance(r, list) and r and r[0] in ("call", "icall"):
                                val = "call:%s" % r[1]
                    envd[(e["base_id"], fld)] = val
                    env = frozenset(envd.items())
            elif e["k"] == "decl" and "init" in e:
                c = const_of(e["init"]["tree"])
                envd = dict(env)
                r = strip_casts(e["init"]["tree"])
                if c is None and is_var(r) and isinstance(envd.get((r[1], None)), int):
                    c = envd[(r[1], None)]
                val = c if c is not None else ("call:%s" % r[1] if isinstance(r, list) and r and r[0] in ("call", "icall") else "nonconst")
                if e["id"] in REL:
                    envd[(e["id"], None)] = val
                    env = frozenset(envd.items())
            if phase == 1 and not lost and holders0:
                # copies of the result into other locals, and overwrites of the locals that hold it
                tgt = src_tree = None
                if e["k"] == "assign" and e.get("op") == "=" and e.get("base_kind") in ("local", "param") and not e.get("deref") \
                        and e.get("lhs") == e.get("base") and "rhs" in e:
                    tgt, src_tree = e["base_id"], e["rhs"]["tree"]
                elif e["k"] == "decl" and "init" in e:
                    tgt, src_tree = e["id"], e["init"]["tree"]
                if tgt is not None:
                    if fresh and origin_callid is not None and _stores_call(e, origin_callid):
                        continue
                    rr = strip_casts(src_tree)
                    if is_var(rr) and rr[1] in aliases:
                        aliases = aliases | {tgt}
                    elif tgt in aliases:
                        aliases = aliases - {tgt}
                    subj = subject.pred(aliases)
                elif e["k"] == "assign" and e.get("base_id") in aliases and not e.get("deref") and e.get("op") != "|=" \
                        and (not subject.field or e.get("field") == subject.field):
                    if not (fresh and origin_callid is not None and _stores_call(e, origin_callid)):
                        aliases = aliases - {e["base_id"]}
                        subj = subject.pred(aliases)
                elif e["k"] == "call":
                    for a in e.get("args", []):
                        t_ = strip_casts(a.get("tree"))
                        if isinstance(t_, list) and t_ and t_[0] == "un" and t_[1] == "&" and is_var(t_[2]) and strip_casts(t_[2])[1] in aliases:
                            aliases = aliases - {strip_casts(t_[2])[1]}
                            subj = subject.pred(aliases)
                if not aliases:
                    lost = True
            elif phase == 1 and not lost and subject.overwritten_by(e):
                if origin_callid is not None and bid == start_block.id and _stores_call(e, origin_callid):
                    continue
                lost = True
        if stop:
            continue
        alive = [idx for idx, s in enumerate(b.succ) if s is not None]
        newfacts = {}
        by_assumption = False
        if b.term and "cond" in b.term:
            tree = b.term["cond"]["tree"]
            decided = None
            if b.term["kind"] == "SwitchStmt":
                v = None
                if phase == 1 and not lost and mentions(tree, subj):
                    v = eval_under(tree, subj, value)
                if v is None and env:
                    v = eval_under(tree, None, None, dict(env))     # the switched variable holds a constant on this path
                if v is not None:
                    hit = default = None
                    for idx, s in enumerate(b.succ):
                        if s is None:
                            continue
                        lab = f.blocks[s].label or {}
                        if lab.get("kind") == "case" and lab.get("value") == v:
                            hit = idx
                        elif lab.get("kind") != "case":
                            default = idx
                    alive = [x for x in [hit if hit is not None else default] if x is not None]
            elif len(b.succ) >= 2:
                if phase == 1 and not lost and mentions(tree, subj):
                    v = eval_under(tree, subj, value)
                    if v is not None:
                        decided = bool(v)
                        by_assumption = True
                    else:
                        # comparison of the (assumed) result with an expression the path knows something about
                        tt = strip_casts(tree)
                        neg = False
                        while isinstance(tt, list) and tt and tt[0] == "un" and tt[1] == "!":
                            tt = strip_casts(tt[2])
                            neg = not neg
                        if isinstance(tt, list) and tt and tt[0] == "bin" and tt[1] in _REL:
                            a, bb = eval_under(tt[2], subj, value), eval_under(tt[3], subj, value)
                            q = None
                            if a is not None and bb is None and not mentions(tt[3], subj):
                                q = ["bin", _FLIP[tt[1]], tt[3], ["int", a]]
                            elif bb is not None and a is None and not mentions(tt[2], subj):
                                q = ["bin", tt[1], tt[2], ["int", bb]]
                            if q is not None:
                                d = fact_query(facts, q)
                                if d is not None:
                                    decided = d != neg
                if decided is None:
                    decided = fact_query(facts, tree)
                if decided is None and env:
                    ev = eval_under(tree, None, None, dict(env))
                    if ev is not None:
                        decided = bool(ev)
                if decided is not None:
                    alive = [0] if decided else [1]
                for idx, truth in ((0, True), (1, False)):
                    if idx in alive:
                        fo = _fact_of(tree, truth)
                        if fo is not None and not (phase == 1 and mentions(tree, subj)):
                            if rel_facts_only and not (fo[1] <= REL_NAMES):
                                continue    # only branches on return-relevant variables are remembered (bounds the state space)
                            newfacts[idx] = fo
        for idx in alive:
            if idx >= len(b.succ) or b.succ[idx] is None:
                continue
            s = b.succ[idx]
            if phase == 1 and (s in stop_blocks or (bid, s) in dead_edges):
                continue        # the caller asks whether a return is reachable *without* passing these blocks / edges
            nenv = env
            if b.term and "cond" in b.term and b.term["kind"] == "SwitchStmt":
                sv = strip_casts(b.term["cond"]["tree"])
                lab = f.blocks[s].label or {}
                if is_var(sv) and sv[1] in REL and lab.get("kind") == "case" and "value" in lab and "value_hi" not in lab:
                    ed = dict(env)
                    ed[(sv[1], None)] = lab["value"]
                    nenv = frozenset(ed.items())
            nf = facts
            if idx in newfacts:
                fo = newfacts[idx]
                nf = tuple([x for x in facts if x != fo] + [fo])
                if len(nf) > 32:
                    nf = nf[-32:]
            # forget what is known about variables that are dead at the successor (state normalisation)
            lv = LIVE.get(s, ())
            if nenv:
                nenv = frozenset(kv for kv in nenv if kv[0][0] in lv)
            if nf:
                ln = LIVE_NAMES.get(s, ())
                nf = tuple(x for x in nf if x[1] <= ln)
            key = (s, phase, lost, nf, nenv, by_assumption, aliases)
            if key in seen:
                continue
            seen.add(key)
            dq.append((s, 0, phase, lost, nf, nenv, path + (s,) if len(path) < 200 else path, by_assumption, aliases))
    return out
