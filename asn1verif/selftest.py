"""Checker self-test (thorough tier): every mutant in /verif/mutants/<id>/*.diff is applied to a scratch copy of the
repository sources; the property's rules must then report the expected instance, which they must not report on the
unmodified copy. Controls in /verif/controls are tiny C files with one violating construct per zero-count rule."""
import glob
import os
import shutil
import subprocess
import tempfile

from . import extract
from .extract import VERIF

SRC_DIRS = ["skeletons", "libasn1common", "libasn1parser", "libasn1fix", "libasn1print", "libasn1compiler", "asn1c",
            "asn1-tools"]


def scratch_copy():
    src = extract.get_repo()
    d = tempfile.mkdtemp(prefix="asn1verif-mut-")
    for sd in SRC_DIRS:
        for root, dirs, files in os.walk(os.path.join(src, sd)):
            rel = os.path.relpath(root, src)
            keep = [f for f in files if f.endswith((".c", ".h", ".y", ".l")) or f == "file-dependencies"]
            if not keep:
                continue
            os.makedirs(os.path.join(d, rel), exist_ok=True)
            for f in keep:
                shutil.copy2(os.path.join(root, f), os.path.join(d, rel, f))
    if os.path.exists(os.path.join(src, "config.h")):
        shutil.copy2(os.path.join(src, "config.h"), os.path.join(d, "config.h"))
    return d


def parse_header(path):
    exp = []
    desc = ""
    for line in open(path):
        if line.startswith("# expect:"):
            parts = line[len("# expect:"):].split()
            exp.append({"rule": parts[0], "function": parts[1] if len(parts) > 1 else None,
                        "key": parts[2] if len(parts) > 2 else None})
        elif line.startswith("# desc:"):
            desc = line[len("# desc:"):].strip()
    return exp, desc


def violations_of(module, tier="quick"):
    from .engine import Context
    ctx = Context(tier)
    rules = module.run(ctx)
    return {(i.rule, i.function, i.key) for r in rules for i in r.insts if i.verdict == "violation"}


def run_mutants(pid, module):
    """Returns a list of selftest result dicts."""
    mdir = os.path.join(VERIF, "mutants", pid)
    files = sorted(glob.glob(os.path.join(mdir, "*.diff")))
    out = []
    if not files:
        return out
    orig = extract.get_repo()
    try:
        base_dir = scratch_copy()
        extract.set_repo(base_dir)
        try:
            base = violations_of(module)
        finally:
            extract.set_repo(orig)
        shutil.rmtree(base_dir, ignore_errors=True)
        for mf in files:
            exp, desc = parse_header(mf)
            d = scratch_copy()
            try:
                p = subprocess.run(["patch", "-p1", "-s", "--no-backup-if-mismatch", "-i", mf], cwd=d,
                                   stdout=subprocess.PIPE, stderr=subprocess.STDOUT, text=True)
                name = os.path.basename(mf)
                if p.returncode != 0:
                    out.append({"selftest": "mutant", "mutant": name, "ok": True, "skipped": True,
                                "detail": "patch no longer applies (anchor moved): " + p.stdout.strip()[:200]})
                    continue
                extract.set_repo(d)
                try:
                    got = violations_of(module)
                except extract.AnalysisBroken as ex:
                    out.append({"selftest": "mutant", "mutant": name, "ok": False, "detail": "analysis broken: %s" % ex})
                    continue
                finally:
                    extract.set_repo(orig)
                new = got - base
                ok = True
                missing = []
                for x in exp:
                    hit = [g for g in new if g[0] == x["rule"] and (x["function"] in (None, "*") or g[1] == x["function"])
                           and (x["key"] in (None, "*") or g[2] == x["key"])]
                    if not hit:
                        ok = False
                        missing.append(x)
                out.append({"selftest": "mutant", "mutant": name, "desc": desc, "ok": ok,
                            "new_violations": sorted("%s %s %s" % g for g in new)[:10], "missing": missing})
            finally:
                shutil.rmtree(d, ignore_errors=True)
    finally:
        extract.set_repo(orig)
    return out
