"""Program model built from factdump output: functions with CFGs, globals, op tables, call graph."""
import collections
import os

from .extract import AnalysisBroken

OP_SLOTS = ["free_struct", "print_struct", "compare_struct", "ber_decoder", "der_encoder", "xer_decoder",
            "xer_encoder", "oer_decoder", "oer_encoder", "uper_decoder", "uper_encoder", "random_fill",
            "outmost_tag"]


def walk(tree):
    """Pre-order walk of an expression tree (lists)."""
    if isinstance(tree, list):
        yield tree
        if tree and tree[0] == "sizeof":
            return      # the operand of sizeof is not evaluated
        for x in tree[1:]:
            if isinstance(x, list):
                if x and isinstance(x[0], str):
                    yield from walk(x)
                else:
                    for y in x:
                        yield from walk(y)


def tree_vars(tree):
    return {n[1] for n in walk(tree) if n and n[0] == "var"}


def tree_calls(tree):
    return [n for n in walk(tree) if n and n[0] in ("call", "icall")]


def strip_casts(t):
    while isinstance(t, list) and t and t[0] in ("cast", "iconv", "decay", "stmtexpr"):
        t = t[-1]
    return t


def is_var(t, vid=None):
    t = strip_casts(t)
    return isinstance(t, list) and t and t[0] == "var" and (vid is None or t[1] == vid)


def const_of(t):
    t = strip_casts(t)
    if isinstance(t, list) and t:
        if t[0] == "int":
            return t[1]
        if t[0] == "enum":
            return t[2]
        if t[0] == "sizeof" and isinstance(t[2], int):
            return t[2]
        if t[0] == "un" and t[1] == "-":
            c = const_of(t[2])
            return -c if c is not None else None
    return None


def addr_roots(tree):
    """Variables whose own storage the value of `tree` may point into: the variable appears under an
    array-to-pointer decay or an address-of operator, reached only through `.field` and `[i]` on arrays
    (never through a stored pointer)."""
    out = set()

    def lvalue_base(t):
        while isinstance(t, list) and t:
            k = t[0]
            if k == "var":
                return t
            if k == "member" and not t[3]:
                t = t[1]
            elif k == "sub":
                b = t[1]
                if isinstance(b, list) and b and b[0] == "decay":
                    t = b[1]
                else:
                    return None
            elif k in ("cast",):
                t = t[-1]
            else:
                return None
        return None
    for n in walk(tree):
        if n[0] == "decay":
            v = lvalue_base(n[1])
            if v is not None:
                out.add(v[1])
        elif n[0] == "un" and n[1] == "&":
            v = lvalue_base(n[2])
            if v is not None:
                out.add(v[1])
    return out


def tree_text(t):
    """Canonical short rendering of a tree (for keys and messages)."""
    if not isinstance(t, list) or not t:
        return "?"
    k = t[0]
    if k == "int":
        return str(t[1])
    if k == "enum":
        return t[1]
    if k == "var":
        return t[1].split("@")[0]
    if k == "fn":
        return t[1]
    if k == "str":
        return '"%s"' % t[1][:20]
    if k == "member":
        return tree_text(t[1]) + ("->" if t[3] else ".") + t[2]
    if k == "sub":
        return "%s[%s]" % (tree_text(t[1]), tree_text(t[2]))
    if k == "un":
        op = t[1]
        if op.endswith("post"):
            return tree_text(t[2]) + op[:-4]
        return op + tree_text(t[2])
    if k == "bin":
        return "(%s %s %s)" % (tree_text(t[2]), t[1], tree_text(t[3]))
    if k == "cond":
        return "(%s ? %s : %s)" % (tree_text(t[1]), tree_text(t[2]), tree_text(t[3]))
    if k in ("cast", "iconv", "decay"):
        return tree_text(t[-1])
    if k == "call":
        return "%s(%s)" % (t[2], ", ".join(tree_text(a) for a in t[3]))
    if k == "icall":
        return "(*%s)(%s)" % (tree_text(t[2]), ", ".join(tree_text(a) for a in t[3]))
    if k == "sizeof":
        return "sizeof(%s)" % t[1]
    return k


class Block:
    __slots__ = ("id", "succ_raw", "succ", "label", "ev", "term", "preds")

    def __init__(self, d):
        self.id = d["id"]
        self.succ_raw = d["succ"]
        # successor i keeps its position (0 = true edge / first case); None when clang proved it unreachable
        self.succ = [s if (s is not None and s >= 0) else None for s in d["succ"]]
        self.label = d.get("label")
        # a call whose use could not be determined sits in an unevaluated operand (typeof(code) in WITH_MODULE): not an event
        self.ev = [e for e in d["ev"] if not (e["k"] == "call" and e.get("use") == "unknown")]
        self.term = d.get("term")
        if self.term and "cond" in self.term:
            # clang reports the whole `a && b` / `a || b` as the condition of the block that ends the if/while/for,
            # but that block only evaluates the right-most operand (the others have their own blocks)
            t = self.term["cond"].get("tree")
            full = t
            while isinstance(t, list) and t and t[0] == "bin" and t[1] in ("&&", "||"):
                t = t[3]
            if t is not full:
                self.term["cond"] = dict(self.term["cond"], tree=t, full_tree=full)
        self.preds = []

    def succs(self):
        return [s for s in self.succ if s is not None]


class Func:
    def __init__(self, d, tu):
        self.name = d["name"]
        self.file = d["file"]
        self.line = d["line"]
        self.static = d["static"]
        self.inline = d.get("inline", False)
        self.ret_type = d["ret_type"]
        self.params = d["params"]
        self.tu = tu
        self.entry = d.get("entry")
        self.exit = d.get("exit")
        self.blocks = {b["id"]: Block(b) for b in d["blocks"]}
        # predecessors only from blocks reachable from the entry (clang keeps dead blocks, e.g. the loop-back block
        # of `do { } while(0)`)
        live = set()
        st = [self.entry] if self.entry in self.blocks else []
        while st:
            x = st.pop()
            if x in live:
                continue
            live.add(x)
            st.extend(self.blocks[x].succs())
        self.live = live
        for b in self.blocks.values():
            if b.id not in live:
                continue
            for s in b.succs():
                if s in self.blocks:
                    self.blocks[s].preds.append(b.id)
        self.key = None
        self._dom = None
        self._pdom = None

    @property
    def relfile(self):
        return relpath(self.file)

    def events(self, kind=None):
        for b in self.blocks.values():
            for i, e in enumerate(b.ev):
                if kind is None or e["k"] == kind:
                    yield b, i, e

    def all_trees(self):
        """every expression tree of the function: (block, line, tree) for event operands and branch conditions"""
        for b in self.blocks.values():
            for e in b.ev:
                for fld in ("rhs", "init", "expr"):
                    if fld in e and isinstance(e[fld], dict) and "tree" in e[fld]:
                        yield b, e.get("line"), e[fld]["tree"]
                if "lhs_tree" in e:
                    yield b, e.get("line"), e["lhs_tree"]
                if e["k"] == "call":
                    for a in e.get("args", []):
                        if a.get("tree") is not None:
                            yield b, e.get("line"), a["tree"]
            t = b.term
            if t and "cond" in t:
                yield b, t.get("line"), t["cond"].get("full_tree") or t["cond"]["tree"]

    def calls(self):
        return self.events("call")

    def param_index(self, pid):
        for i, p in enumerate(self.params):
            if p["id"] == pid or p["name"] == pid:
                return i
        return None

    # ---- graph utilities
    def reachable_from(self, start_ids, stop=lambda bid: False, forward=True):
        seen = set()
        st = list(start_ids)
        while st:
            x = st.pop()
            if x in seen or x not in self.blocks:
                continue
            seen.add(x)
            if stop(x):
                continue
            nxt = self.blocks[x].succs() if forward else self.blocks[x].preds
            st.extend(nxt)
        return seen

    def dominators(self):
        """dom[b] = set of blocks dominating b (iterative; CFGs are small)."""
        if self._dom is not None:
            return self._dom
        ids = list(self.reachable_from([self.entry]))
        allb = set(ids)
        dom = {b: set(allb) for b in ids}
        dom[self.entry] = {self.entry}
        changed = True
        order = sorted(ids, reverse=True)   # clang numbers entry highest
        while changed:
            changed = False
            for b in order:
                if b == self.entry:
                    continue
                ps = [p for p in self.blocks[b].preds if p in dom]
                if not ps:
                    continue
                new = set.intersection(*(dom[p] for p in ps)) | {b}
                if new != dom[b]:
                    dom[b] = new
                    changed = True
        self._dom = dom
        return dom

    def postdominators(self):
        if self._pdom is not None:
            return self._pdom
        ids = [b for b in self.blocks]
        allb = set(ids)
        pd = {b: set(allb) for b in ids}
        pd[self.exit] = {self.exit}
        changed = True
        while changed:
            changed = False
            for b in sorted(ids):
                if b == self.exit:
                    continue
                ss = self.blocks[b].succs()
                if not ss:
                    # no successors (noreturn call): post-dominated by everything is wrong; treat as only itself
                    new = {b}
                else:
                    new = set.intersection(*(pd[s] for s in ss)) | {b}
                if new != pd[b]:
                    pd[b] = new
                    changed = True
        self._pdom = pd
        return pd

    def edge_dominates(self, src, idx, target):
        """True if every path from entry to `target` uses edge (src -> succ[idx])."""
        b = self.blocks[src]
        dst = b.succ[idx] if idx < len(b.succ) else None
        if dst is None:
            return False
        # remove the edge and test reachability of target from entry
        seen = set()
        st = [self.entry]
        while st:
            x = st.pop()
            if x in seen:
                continue
            seen.add(x)
            if x == target:
                return False
            blk = self.blocks[x]
            for i, s in enumerate(blk.succ):
                if s is None:
                    continue
                if x == src and i == idx:
                    # other indices may lead to the same dst: that is a different edge, allowed
                    continue
                st.append(s)
        return True

    def returns(self):
        for b, i, e in self.events("return"):
            yield b, i, e

    def liveness(self):
        """block id -> set of variable ids live at block entry (classic backward may-analysis over the events' trees;
        any variable whose address is taken is treated as always live)."""
        if getattr(self, "_live", None) is not None:
            return self._live
        use, dfn = {}, {}
        always = set()

        def reads(e):
            out = set()
            trees = []
            if e["k"] == "call":
                trees = [a.get("tree") for a in e.get("args", [])] + [e.get("callee_tree")]
            elif e["k"] == "assign":
                trees = [e.get("rhs", {}).get("tree")]
                # compound assignment and stores through the variable read it as well
                if e.get("op") != "=" or e.get("deref") or e.get("lhs") != e.get("base"):
                    trees.append(e.get("lhs_tree"))
            elif e["k"] == "decl":
                trees = [e.get("init", {}).get("tree")]
            elif e["k"] == "return":
                trees = [e.get("expr", {}).get("tree")]
            elif e["k"] in ("deref", "subscript"):
                trees = [e.get("tree"), e.get("index", {}).get("tree"), e.get("basex", {}).get("tree")]
            elif e["k"] == "assert":
                trees = [e.get("cond", {}).get("tree")]
            for t in trees:
                for n in walk(t):
                    if n[0] == "var":
                        out.add(n[1])
                    elif n[0] == "un" and n[1] == "&":
                        for m in walk(n[2]):
                            if m[0] == "var":
                                always.add(m[1])
            return out
        for b in self.blocks.values():
            u, d = set(), set()
            for e in b.ev:
                r = reads(e)
                u |= (r - d)
                if e["k"] == "assign" and e.get("base_id") and not e.get("deref") and e.get("lhs") == e.get("base") and e.get("op") == "=":
                    d.add(e["base_id"])
                elif e["k"] == "decl":
                    d.add(e["id"])
            if b.term and "cond" in b.term:
                for n in walk(b.term["cond"].get("full_tree") or b.term["cond"]["tree"]):
                    if n[0] == "var" and n[1] not in d:
                        u.add(n[1])
            use[b.id], dfn[b.id] = u, d
        live_in = {b: set() for b in self.blocks}
        changed = True
        while changed:
            changed = False
            for bid in sorted(self.blocks):
                out = set()
                for s_ in self.blocks[bid].succs():
                    out |= live_in[s_]
                new = use[bid] | (out - dfn[bid])
                if new != live_in[bid]:
                    live_in[bid] = new
                    changed = True
        for bid in live_in:
            live_in[bid] |= always
        self._live = live_in
        return live_in

    def loops(self):
        """Natural loops: list of (header, set(body blocks)) from back edges."""
        dom = self.dominators()
        res = {}
        for b in self.blocks.values():
            if b.id not in dom:
                continue
            for s in b.succs():
                if s in dom[b.id]:
                    body = {s, b.id}
                    st = [b.id]
                    while st:
                        x = st.pop()
                        if x == s:
                            continue
                        for p in self.blocks[x].preds:
                            if p not in body:
                                body.add(p)
                                st.append(p)
                    res.setdefault(s, set()).update(body)
        return sorted(res.items())


def relpath(p):
    from . import extract
    root = extract.get_repo().rstrip("/") + "/"
    if p.startswith(root):
        return p[len(root):]
    if p.startswith("/repo/"):
        return p[6:]
    return p


class Program:
    def __init__(self, tus, info=None):
        self.info = info or {}
        self.funcs = {}          # key -> Func
        self.by_name = collections.defaultdict(list)
        self.globals = []        # dicts
        self.enums = {}
        seen_f = set()
        seen_g = set()
        for tu in tus:
            tuname = tu["tu"]
            for fd in tu["functions"]:
                ident = (fd["file"], fd["line"], fd["name"])
                if ident in seen_f:
                    continue
                seen_f.add(ident)
                f = Func(fd, tuname)
                self.by_name[f.name].append(f)
            for g in tu["globals"]:
                ident = (g["file"], g["line"], g["name"], g.get("in_function"))
                if ident in seen_g:
                    continue
                seen_g.add(ident)
                g["tu"] = tuname
                self.globals.append(g)
            for e in tu.get("enums", []):
                self.enums.setdefault(e.get("typedef") or e["name"], e)
                if e["name"]:
                    self.enums.setdefault(e["name"], e)
        for name, fl in self.by_name.items():
            for f in fl:
                f.key = name if len(fl) == 1 else "%s::%s" % (os.path.basename(f.file), name)
                self.funcs[f.key] = f
        self.global_by_name = collections.defaultdict(list)
        for g in self.globals:
            self.global_by_name[g["name"]].append(g)
        self._build_tables()
        self._cg = None

    # ---- lookup
    def func(self, name):
        fl = self.by_name.get(name)
        if not fl:
            return None
        return fl[0]

    def require(self, name):
        f = self.func(name)
        if f is None:
            raise AnalysisBroken("anchor function %s no longer exists" % name)
        return f

    def resolve_direct(self, name, caller):
        fl = self.by_name.get(name)
        if not fl:
            return None
        if len(fl) == 1:
            return fl[0]
        for f in fl:
            if f.tu == caller.tu:
                return f
        for f in fl:
            if not f.static:
                return f
        return fl[0]

    # ---- op tables, descriptors
    def _build_tables(self):
        self.op_tables = {}
        self.descriptors = {}
        for g in self.globals:
            if not g.get("definition") or "init" not in g:
                continue
            if g["base_type"] in ("asn_TYPE_operation_t", "struct asn_TYPE_operation_s") and isinstance(g["init"], dict):
                self.op_tables[g["name"]] = g["init"]
            elif g["base_type"] in ("asn_TYPE_descriptor_t", "struct asn_TYPE_descriptor_s") and isinstance(g["init"], dict):
                self.descriptors[g["name"]] = g["init"]
        self.slot_funcs = collections.defaultdict(set)   # slot -> function names
        self.slot_null = collections.defaultdict(set)    # slot -> op tables where it is NULL
        for tn, init in self.op_tables.items():
            for s in OP_SLOTS:
                v = init.get(s, 0)
                if isinstance(v, str) and v.startswith("fn:"):
                    self.slot_funcs[s].add(v[3:])
                else:
                    self.slot_null[s].add(tn)
        # field-based function-pointer map: field name -> functions ever stored there (initializers + assignments)
        self.field_funcs = collections.defaultdict(set)

        def scan(v, field):
            if isinstance(v, dict):
                for k, x in v.items():
                    scan(x, k)
            elif isinstance(v, list):
                for x in v:
                    scan(x, field)
            elif isinstance(v, str) and v.startswith("fn:") and field:
                self.field_funcs[field].add(v[3:])
        for g in self.globals:
            if "init" in g:
                scan(g["init"], None)
        for f in self.funcs.values():
            for b, i, e in f.events("assign"):
                if e.get("field") and "rhs" in e:
                    t = strip_casts(e["rhs"]["tree"])
                    if isinstance(t, list) and t and t[0] == "fn":
                        self.field_funcs[e["field"]].add(t[1])
                    elif isinstance(t, list) and t and t[0] == "un" and t[1] == "&" and isinstance(t[2], list) and t[2][0] == "fn":
                        self.field_funcs[e["field"]].add(t[2][1])

    # ---- call graph
    def callgraph(self):
        if self._cg is None:
            self._cg = CallGraph(self)
        return self._cg


def fn_refs(tree):
    """function names referenced as values in a tree"""
    return {n[1] for n in walk(tree) if n and n[0] == "fn"}


class CallGraph:
    """Direct calls by declaration; indirect calls resolved by slot/field name, by the arguments passed for a
    function-pointer parameter, or by the values assigned to a function-pointer local."""

    def __init__(self, prog):
        self.prog = prog
        self.edges = collections.defaultdict(set)      # caller key -> callee keys
        self.sites = collections.defaultdict(list)     # caller key -> (block, idx, event, [callee keys])
        self.external = collections.defaultdict(set)   # caller key -> names of callees without a body
        self.unresolved = []                           # (caller key, event)
        # parameter bindings: (callee key, param index) -> function names passed
        self.param_fns = collections.defaultdict(set)
        self.local_fns = collections.defaultdict(set)  # (func key, var id) -> function names assigned
        self._bind_fp()
        for f in prog.funcs.values():
            for b, i, e in f.calls():
                tg = self.resolve(f, e)
                self.sites[f.key].append((b, i, e, tg))
                for t in tg:
                    self.edges[f.key].add(t)
        self.redges = collections.defaultdict(set)
        for a, bs in self.edges.items():
            for b in bs:
                self.redges[b].add(a)

    def _bind_fp(self):
        prog = self.prog
        for _ in range(3):   # propagate through up to three levels of forwarding
            for f in prog.funcs.values():
                for b, i, e in f.events():
                    if e["k"] == "call" and "callee" in e:
                        cal = prog.resolve_direct(e["callee"], f)
                        if cal is None:
                            continue
                        for ai, a in enumerate(e["args"]):
                            for fn in fn_refs(a.get("tree")):
                                self.param_fns[(cal.key, ai)].add(fn)
                            t = strip_casts(a.get("tree"))
                            if is_var(t) and t[2] == "param":
                                pi = f.param_index(t[1])
                                if pi is not None:
                                    self.param_fns[(cal.key, ai)] |= self.param_fns.get((f.key, pi), set())
                            elif is_var(t) and t[2] == "local":
                                self.param_fns[(cal.key, ai)] |= self.local_fns.get((f.key, t[1]), set())
                    elif e["k"] == "assign" and e.get("base_kind") == "local" and not e.get("deref") and "rhs" in e:
                        self._bind_local(f, e["base_id"], e["rhs"]["tree"])
                    elif e["k"] == "decl" and "init" in e:
                        self._bind_local(f, e["id"], e["init"]["tree"])

    def _bind_local(self, f, vid, tree):
        prog = self.prog
        for fn in fn_refs(tree):
            self.local_fns[(f.key, vid)].add(fn)
        for n in walk(tree):
            if n[0] == "member" and n[2] in prog.slot_funcs:
                self.local_fns[(f.key, vid)] |= prog.slot_funcs[n[2]]
            elif n[0] == "member" and n[2] in prog.field_funcs:
                self.local_fns[(f.key, vid)] |= prog.field_funcs[n[2]]
            elif n[0] == "var" and n[2] == "param":
                pi = f.param_index(n[1])
                if pi is not None and (f.key, pi) in self.param_fns:
                    self.local_fns[(f.key, vid)] |= self.param_fns[(f.key, pi)]

    def resolve(self, f, e):
        prog = self.prog
        names = set()
        if "callee" in e:
            cal = prog.resolve_direct(e["callee"], f)
            if cal is None:
                self.external[f.key].add(e["callee"])
                return []
            return [cal.key]
        if e.get("slot"):
            if "asn_TYPE_operation" in e.get("slot_struct", "") and e["slot"] in prog.slot_funcs:
                names = set(prog.slot_funcs[e["slot"]])
            else:
                names = set(prog.field_funcs.get(e["slot"], ()))
        elif e.get("fp_var"):
            if e.get("fp_kind") == "param":
                pi = f.param_index(e["fp_var"])
                names = set(self.param_fns.get((f.key, pi), ()))
            else:
                names = set(self.local_fns.get((f.key, e["fp_var"]), ()))
        else:
            for n in walk(e.get("callee_tree")):
                if n[0] == "member" and (n[2] in prog.slot_funcs or n[2] in prog.field_funcs):
                    names |= prog.slot_funcs.get(n[2], set()) | prog.field_funcs.get(n[2], set())
                    break
                if n[0] == "var" and n[2] == "param":
                    pi = f.param_index(n[1])
                    names |= self.param_fns.get((f.key, pi), set())
                    break
        out = []
        for n in sorted(names):
            cal = prog.resolve_direct(n, f)
            if cal is not None:
                out.append(cal.key)
            else:
                self.external[f.key].add(n)
        if not out:
            self.unresolved.append((f.key, e))
        return out

    def reachable(self, roots, stop=()):
        seen = set()
        st = [r for r in roots if r in self.prog.funcs]
        while st:
            x = st.pop()
            if x in seen or x in stop:
                continue
            seen.add(x)
            st.extend(self.edges.get(x, ()))
        return seen

    def path(self, roots, target):
        """Shortest call path from any root to target (list of keys) or None."""
        prev = {}
        dq = collections.deque(r for r in roots if r in self.prog.funcs)
        for r in dq:
            prev[r] = None
        while dq:
            x = dq.popleft()
            if x == target:
                out = []
                while x is not None:
                    out.append(x)
                    x = prev[x]
                return out[::-1]
            for y in sorted(self.edges.get(x, ())):
                if y not in prev:
                    prev[y] = x
                    dq.append(y)
        return None

    def sccs(self, nodes=None):
        """Tarjan SCCs (only components with a cycle are returned)."""
        nodes = set(nodes) if nodes is not None else set(self.prog.funcs)
        index = {}
        low = {}
        onst = set()
        st = []
        out = []
        counter = [0]
        import sys
        sys.setrecursionlimit(10000)

        def sc(v):
            index[v] = low[v] = counter[0]
            counter[0] += 1
            st.append(v)
            onst.add(v)
            for w in self.edges.get(v, ()):
                if w not in nodes:
                    continue
                if w not in index:
                    sc(w)
                    low[v] = min(low[v], low[w])
                elif w in onst:
                    low[v] = min(low[v], index[w])
            if low[v] == index[v]:
                comp = []
                while True:
                    w = st.pop()
                    onst.discard(w)
                    comp.append(w)
                    if w == v:
                        break
                if len(comp) > 1 or v in self.edges.get(v, ()):
                    out.append(sorted(comp))
        for v in sorted(nodes):
            if v not in index:
                sc(v)
        return out
