"""C13 code-generation options never change the wire format — R13.1 wire-table emitters are blind to
representation options."""
from ..engine import Rule, load_tables
from ..extract import AnalysisBroken
from ..model import walk

EXPLANATION = (
    "Effect rule over libasn1compiler: the functions that emit wire-relevant tables (PER/OER constraint tables, tag "
    "vectors, tag-to-member maps — named by the property's anchors) and everything they call, except the identifier "
    "naming module, never read a representation option (A1C_USE_WIDE_TYPES, A1C_COMPOUND_NAMES, A1C_INDIRECT_CHOICE, "
    "A1C_NO_INCLUDE_DEPS, A1C_INCLUDES_QUOTED, A1C_NO_CONSTRAINTS). A read is any use of the enumerator in an "
    "expression. A violation makes the emitted wire tables a function of the option. The semantic fixer, whose results (constraints, "
    "tags) feed those tables, cannot see these enumerators at all: they are declared in libasn1compiler only. R13.2: the "
    "options decide whether a DEFAULT member is stored by value or through a pointer, so every member loop of the "
    "SEQUENCE/SET encoders must decide presence through default_value_cmp (rule R06.3 evaluated here): a loop that "
    "counts any existing storage as present makes the native and the -fwide-types build emit different bytes.")
NOT_DECIDED = "equality of bytes across option sets; the runtime's wide/native INTEGER and REAL codecs producing the same octets"
ASSUMPTIONS = ["identifier spelling (asn1c_naming.c, asn1c_make_identifier, asn1c_type_name) does not influence table contents other than names"]


def reads_flag(f, flags):
    hits = []
    for b, i, e in f.events():
        trees = []
        if e["k"] == "call":
            trees = [a.get("tree") for a in e.get("args", [])]
        else:
            for k in ("rhs", "init", "expr", "cond", "index"):
                if isinstance(e.get(k), dict):
                    trees.append(e[k].get("tree"))
        for t in trees:
            for n in walk(t):
                if n[0] == "enum" and n[1] in flags:
                    hits.append((n[1], e.get("line")))
    for b in f.blocks.values():
        if b.term and "cond" in b.term:
            for n in walk(b.term["cond"].get("full_tree") or b.term["cond"]["tree"]):
                if n[0] == "enum" and n[1] in flags:
                    hits.append((n[1], b.term.get("line")))
    return hits


def run(ctx):
    prog = ctx.prog("K")
    tab = load_tables("c13")
    flags = set(tab["representation_flags"])
    r = Rule("R13.1", "wire-table emitters and their callees never read a representation option", floor=15)
    cg = prog.callgraph()
    roots = []
    for n in tab["wire_table_emitters"]:
        roots.append(prog.require(n).key)
    naming = set()
    for f in prog.funcs.values():
        if f.relfile.endswith(tuple(tab["naming_files"])) or f.name in tab["naming_functions"]:
            naming.add(f.key)
    scope = cg.reachable(roots, stop=naming)
    for k in sorted(scope):
        f = prog.funcs[k]
        hits = reads_flag(f, flags)
        if hits:
            for fl, line in sorted(set(hits)):
                r.bad(f, fl, "reads representation option %s on the way to emitting a wire table (%s): the table contents can "
                             "depend on the option" % (fl, " -> ".join(cg.path(roots, k) or [k])), line)
        else:
            r.ok(f, "*", "no representation option is read", f.line)
    r.note("roots %s; scope %d functions; naming module cut: %d functions" % (tab["wire_table_emitters"], len(scope), len(naming)))
    # R13.2: -fwide-types (and try_inline_default) decide whether a DEFAULT member is a by-value field or a pointer; the
    # bytes can only agree if every member pass of the runtime decides presence by value (default_value_cmp), never by
    # the mere existence of storage.  This is rule R06.3 evaluated for this property.
    from . import c06
    r2 = c06.r06_3(ctx.prog("S"), load_tables("c06"), rid="R13.2")
    return [r, r2]


def thorough(ctx):
    from .. import selftest
    import sys
    return selftest.run_mutants("C13", sys.modules[__name__])
