"""C13 code-generation options never change the wire format — R13.1 wire-table emitters are blind to
representation options."""
from ..engine import Rule, load_tables
from ..extract import AnalysisBroken
from ..model import walk, strip_casts

EXPLANATION = (
    "Effect rule over libasn1compiler: the functions that emit wire-relevant tables (PER/OER constraint tables, tag "
    "vectors, tag-to-member maps — named by the property's anchors) and everything they call, except the identifier "
    "naming module, never read a representation option (A1C_USE_WIDE_TYPES, A1C_COMPOUND_NAMES, A1C_INDIRECT_CHOICE, "
    "A1C_NO_INCLUDE_DEPS, A1C_INCLUDES_QUOTED, A1C_NO_CONSTRAINTS). A read is any use of the enumerator in an "
    "expression. A violation makes the emitted wire tables a function of the option. The semantic fixer, whose results (constraints, "
    "tags) feed those tables, cannot see these enumerators at all: they are declared in libasn1compiler only. R13.2: the "
    "options decide whether a DEFAULT member is stored by value or through a pointer, so every member loop of the "
    "SEQUENCE/SET encoders must decide presence through default_value_cmp (rule R06.3 evaluated here): a loop that "
    "counts any existing storage as present makes the native and the -fwide-types build emit different bytes.")
NOT_DECIDED = "equality of bytes across option sets; the runtime's wide/native INTEGER and REAL codecs producing the same octets"
ASSUMPTIONS = ["identifier spelling (asn1c_naming.c, asn1c_make_identifier, asn1c_type_name) does not influence table contents other than names"]


def reads_flag(f, flags):
    hits = []
    for b, i, e in f.events():
        trees = []
        if e["k"] == "call":
            trees = [a.get("tree") for a in e.get("args", [])]
        else:
            for k in ("rhs", "init", "expr", "cond", "index"):
                if isinstance(e.get(k), dict):
                    trees.append(e[k].get("tree"))
        for t in trees:
            for n in walk(t):
                if n[0] == "enum" and n[1] in flags:
                    hits.append((n[1], e.get("line")))
    for b in f.blocks.values():
        if b.term and "cond" in b.term:
            for n in walk(b.term["cond"].get("full_tree") or b.term["cond"]["tree"]):
                if n[0] == "enum" and n[1] in flags:
                    hits.append((n[1], b.term.get("line")))
    return hits


def run(ctx):
    prog = ctx.prog("K")
    tab = load_tables("c13")
    flags = set(tab["representation_flags"])
    r = Rule("R13.1", "wire-table emitters and their callees never read a representation option", floor=15)
    cg = prog.callgraph()
    roots = []
    for n in tab["wire_table_emitters"]:
        roots.append(prog.require(n).key)
    naming = set()
    for f in prog.funcs.values():
        if f.relfile.endswith(tuple(tab["naming_files"])) or f.name in tab["naming_functions"]:
            naming.add(f.key)
    scope = cg.reachable(roots, stop=naming)
    for k in sorted(scope):
        f = prog.funcs[k]
        hits = reads_flag(f, flags)
        if hits:
            for fl, line in sorted(set(hits)):
                r.bad(f, fl, "reads representation option %s on the way to emitting a wire table (%s): the table contents can "
                             "depend on the option" % (fl, " -> ".join(cg.path(roots, k) or [k])), line)
        else:
            r.ok(f, "*", "no representation option is read", f.line)
    r.note("roots %s; scope %d functions; naming module cut: %d functions" % (tab["wire_table_emitters"], len(scope), len(naming)))
    # R13.2: -fwide-types (and try_inline_default) decide whether a DEFAULT member is a by-value field or a pointer; the
    # bytes can only agree if every member pass of the runtime decides presence by value (default_value_cmp), never by
    # the mere existence of storage.  This is rule R06.3 evaluated for this property.
    from . import c06
    r2 = c06.r06_3(ctx.prog("S"), load_tables("c06"), rid="R13.2")
    # R13.4: the -fwide-types build carries object-set identifier cells as INTEGER_t literals, the native build as long
    # constants; the literal must denote the same number (rule R18.2 evaluated for this property)
    from . import c18
    return [r, r2, r13_3(ctx.prog("S"), tab), c18.r18_2(prog, rid="R13.4"), r13_5(prog, tab, scope), _r13_6(ctx), r13_7(ctx.prog("S")),
            c06.r06_7(ctx.prog("S"), load_tables("c06"), rid="R13.8"), r13_9(prog, tab)]


def _r13_6(ctx):
    """The wide (-fwide-types) codecs of ENUMERATED/INTEGER are wrappers around the native ones and convert with the
    *2INTEGER helpers; the two builds agree only if the value keeps its signedness at those calls (rule R16.3 evaluated
    for this property)."""
    from . import c16
    return c16.r16_3(ctx.prog("S"), rid="R13.6")


def r13_7(prog):
    """The native INTEGER codec keeps unsigned values in a `long`-sized field and records that in
    specs->field_unsigned; the wide codec has no such ambiguity.  The two builds agree only if *every* codec entry of
    asn_OP_NativeInteger consults field_unsigned (directly or in a callee of the Native* files): sibling agreement over
    the op table (10 of 11 codec slots did on the pinned tree)."""
    r = Rule("R13.7", "every codec slot of the native INTEGER type consults field_unsigned", floor=8)
    cg = prog.callgraph()
    tab_ = prog.op_tables.get("asn_OP_NativeInteger")
    if not tab_:
        raise AnalysisBroken("asn_OP_NativeInteger not found")

    def reads(f):
        return any(n[0] == "member" and n[2] == "field_unsigned" for b, l, t in f.all_trees() for n in walk(t))
    for slot, v in sorted(tab_.items()):
        if slot in ("free_struct", "outmost_tag") or not (isinstance(v, str) and v.startswith("fn:")):
            continue
        f = prog.func(v[3:])
        if f is None:
            continue
        ok = reads(f) or any(reads(prog.funcs[k]) for k in cg.reachable({f.key}) if "Native" in prog.funcs[k].relfile)
        if ok:
            r.ok(f, slot, "consults field_unsigned", f.line)
        else:
            r.bad(f, slot, "this codec entry never looks at field_unsigned while its siblings do: an unsigned value with the top bit set is "
                           "treated as negative here (the -fwide-types build encodes the same value differently)", f.line)
    return r


def r13_5(prog, tab, scope=None):
    """Whether a wire table is emitted does not depend on a representation option.  For every branch in libasn1compiler
    whose condition reads one of the option enumerators: the set of wire-relevant functions called on some path from
    its true edge equals the set called from its false edge (within the function).  Wire-relevant: the table emitters,
    the functions that set a TM_* mark which an emitter (or its callees) reads -- TM_PERFROMCT decides whether the PER
    character map is emitted -- and everything that calls such a function.  A table that exists only without the
    option, while the descriptor referring to it is emitted either way, changes the codec's constraints or no longer
    compiles (-fno-constraints with member-level PER/OER constraints)."""
    r = Rule("R13.5", "no call to a wire-table emitter (or to the code that sets state it reads) is control-dependent on a representation option", floor=10)
    flags = set(tab["representation_flags"])
    emitters = set(tab["wire_table_emitters"])
    exc = {(x["function"], x["key"]): x["reason"] for x in tab.get("r13_5_exceptions", [])}
    cg = prog.callgraph()
    # marks read by the emitters' scope
    marks = set()
    for k in (scope or []):
        f = prog.funcs[k]
        for b, line, tree in f.all_trees():
            if any(n[0] == "member" and n[2] == "_mark" for n in walk(tree)):
                marks |= {n[1] for n in walk(tree) if n[0] == "enum" and n[1].startswith("TM_")}
    writers = set()
    for f in prog.funcs.values():
        if "libasn1compiler/" not in f.relfile:
            continue
        for b, i, e in f.events("assign"):
            if e.get("field") == "_mark" and e.get("op") in ("|=", "=") and "rhs" in e and any(n[0] == "enum" and n[1] in marks for n in walk(e["rhs"]["tree"])):
                writers.add(f.key)
    relevant = {prog.funcs[k].name for k in writers}
    # callers of the writers, transitively
    changed = True
    keys = set(writers)
    while changed:
        changed = False
        for f in prog.funcs.values():
            if f.key in keys or "libasn1compiler/" not in f.relfile:
                continue
            for b, i, e, tg in cg.sites[f.key]:
                if any(t in keys for t in tg):
                    keys.add(f.key)
                    relevant.add(f.name)
                    changed = True
                    break
    relevant |= emitters
    r.note("marks read by the wire-table emitters: %s; set by: %s; wire-relevant functions: %d" % (sorted(marks), sorted(prog.funcs[k].name for k in writers), len(relevant)))
    for f in sorted(prog.funcs.values(), key=lambda f: f.key):
        if "libasn1compiler/" not in f.relfile:
            continue
        sites = {}
        for b, i, e in f.calls():
            if e.get("callee") in relevant and e.get("callee") != f.name:
                sites.setdefault(b.id, set()).add(e["callee"])
        n = 0
        for b in sorted(f.blocks.values(), key=lambda b: ((b.term or {}).get("line") or 0, b.id)):
            t = b.term
            if not t or "cond" not in t or len(b.succ) < 2 or t["kind"] == "SwitchStmt":
                continue
            rd = sorted({x[1] for x in walk(t["cond"]["tree"]) if x[0] == "enum" and x[1] in flags})
            if not rd:
                continue
            n += 1
            key = "if(%s)@%d" % ("|".join(rd), n)
            if not sites:
                r.ok(f, key, "no wire-relevant function is called in this function", t.get("line"), nontrivial=False)
                continue
            reach = []
            for s_ in b.succ[:2]:
                blocks = f.reachable_from([s_]) if s_ is not None else set()
                reach.append(set().union(*[sites.get(bid, set()) for bid in blocks]) if blocks else set())
            if reach[0] == reach[1]:
                r.ok(f, key, "the same wire-relevant functions (%s) are called on both edges" % (", ".join(sorted(reach[0])) or "none"), t.get("line"))
            elif (f.name, key) in exc:
                r.exc(f, key, exc[(f.name, key)], t.get("line"))
            else:
                key = "if(%s) decides %s" % ("|".join(rd), ",".join(sorted(reach[0] ^ reach[1])))
                r.bad(f, key, "the option decides whether %s run: the wire tables (or their existence) depend on a representation "
                              "option" % ", ".join(sorted(reach[0] ^ reach[1])), t.get("line"))
    return r


def r13_9(prog, tab):
    """The wire slots of an emitted descriptor (the references `&asn_PER_..._constr_N`, `&asn_OER_..._constr_N` that
    tell the PER and OER codecs a member's or type's constraints) do not depend on a representation option, directly or
    through a local computed from one.  For every branch in libasn1compiler whose condition reads an option enumerator
    or such a local: the same wire references are written on some path from either edge.  (-fno-constraints is defined
    to drop the *checking* code only; a NULL in a wire slot makes the codec use the unconstrained layout.)"""
    import re
    r = Rule("R13.9", "no reference to a PER/OER constraint table is written into a descriptor under a test of a representation option (or of a local derived from one)", floor=3)
    flags = set(tab["representation_flags"])
    pat = re.compile(r"asn_(PER|OER)_")
    for f in sorted(prog.funcs.values(), key=lambda f: f.key):
        if "libasn1compiler/" not in f.relfile:
            continue
        sites = {}
        for b, i, e in f.calls():
            if e.get("callee") != "asn1c_compiled_output":
                continue
            for a in e.get("args", []):
                t = strip_casts(a.get("tree"))
                if isinstance(t, list) and t and t[0] == "str" and pat.search(t[1]) and "&" in t[1]:
                    sites.setdefault(b.id, set()).add(t[1].strip())
        if not sites:
            continue
        # locals derived from an option
        derived = set()
        changed = True
        while changed:
            changed = False
            for b, i, e in f.events():
                tr = None
                if e["k"] == "decl" and "init" in e:
                    vid, tr = e.get("id"), e["init"]["tree"]
                elif e["k"] == "assign" and "rhs" in e and e.get("lhs") == e.get("base") and not e.get("deref"):
                    vid, tr = e.get("base_id"), e["rhs"]["tree"]
                if tr is None or vid is None or vid in derived:
                    continue
                if any((n[0] == "enum" and n[1] in flags) or (n[0] == "var" and n[1] in derived) for n in walk(tr)):
                    derived.add(vid)
                    changed = True
        n = 0
        for b in sorted(f.blocks.values(), key=lambda b: ((b.term or {}).get("line") or 0, b.id)):
            t = b.term
            if not t or "cond" not in t or len(b.succ) < 2 or t["kind"] == "SwitchStmt":
                continue
            rd = sorted({x[1] for x in walk(t["cond"]["tree"]) if x[0] == "enum" and x[1] in flags}
                        | {x[1].split("@")[0] for x in walk(t["cond"]["tree"]) if x[0] == "var" and x[1] in derived})
            if not rd:
                continue
            n += 1
            key = "if(%s)@%d" % ("|".join(rd), n)
            reach = []
            for s_ in b.succ[:2]:
                blocks = f.reachable_from([s_]) if s_ is not None else set()
                reach.append(set().union(*[sites.get(bid, set()) for bid in blocks]) if blocks else set())
            if reach[0] == reach[1]:
                r.ok(f, key, "the same constraint-table references (%d) are written on both edges" % len(reach[0]), t.get("line"), nontrivial=bool(reach[0]))
            else:
                r.bad(f, "if(%s) decides %s" % ("|".join(rd), ",".join(sorted(reach[0] ^ reach[1]))),
                      "the option decides whether the descriptor refers to %s: the PER/OER layout of the member depends on a representation "
                      "option" % ", ".join(sorted(reach[0] ^ reach[1])), t.get("line"))
    return r


def _is_raw(n):
    return isinstance(n, list) and n and n[0] == "bin" and n[1] == "+" and any(m[0] == "member" and m[2] == "memb_offset" for m in walk(n))


def _find_raw(t, chain=()):
    if not isinstance(t, list) or not t:
        return
    if _is_raw(t):
        yield t, chain
        return
    for c in t[1:]:
        if isinstance(c, list):
            if c and isinstance(c[0], str):
                yield from _find_raw(c, chain + (t,))
            else:
                for cc in c:
                    yield from _find_raw(cc, chain + (t,))


def _atf_polarity(t):
    """True: condition true means `stored through a pointer`; False: true means by value; None: not an ATF_POINTER test"""
    from ..model import strip_casts
    t = strip_casts(t)
    neg = False
    while isinstance(t, list) and t and t[0] == "un" and t[1] == "!":
        t = strip_casts(t[2])
        neg = not neg
    if isinstance(t, list) and t and t[0] == "bin" and t[1] == "&" and any(n[0] == "enum" and n[1] == "ATF_POINTER" for n in walk(t)):
        return not neg
    return None


def r13_3(prog, tab, rid="R13.3", only=None, floor=80):
    """-findirect-choice / -fwide-types / recursion breaking decide, per member, whether the structure holds the value
    or a pointer to it (ATF_POINTER).  Every computation of a member's storage address (`base + elm->memb_offset`)
    in the runtime must sit on an edge of a test of ATF_POINTER, and be read as pointer-to-pointer exactly on the
    pointer edge.  An address used before the test hands `the slot` to code that expects `the value` in one of the two
    representations: the builds then disagree on the bytes."""
    from ..model import tree_text
    r = Rule(rid, "a member's storage address is interpreted only after ATF_POINTER was tested, as pointer-to-pointer exactly on the pointer edge", floor=floor)
    exc = {(x["function"], x["key"]): x["reason"] for x in tab.get("r13_3_exceptions", [])}
    for f in sorted(prog.funcs.values(), key=lambda f: f.key):
        if only is not None and not only(f):
            continue
        tests = []
        for b in f.blocks.values():
            if b.term and "cond" in b.term and len(b.succ) >= 2 and b.term["kind"] != "SwitchStmt":
                p = _atf_polarity(b.term["cond"]["tree"])
                if p is not None:
                    tests.append((b.id, p))
        n = 0
        seen = set()
        dups = {}
        for b, line, tree in sorted(f.all_trees(), key=lambda x: (x[1] or 0, x[0].id)):
            for raw, chain in _find_raw(tree):
                sig = (b.id, line, tree_text(raw), len(chain))
                if sig in seen:
                    continue
                seen.add(sig)
                n += 1
                txt = tree_text(raw)[:48]
                dups[txt] = dups.get(txt, 0) + 1
                key = "raw:%s%s" % (txt, "" if dups[txt] == 1 else "#%d" % dups[txt])
                g = None
                for tb, p in tests:
                    for idx in (0, 1):
                        if f.edge_dominates(tb, idx, b.id):
                            g = p if idx == 0 else (not p)
                stars = 0
                for a in reversed(chain):
                    if a[0] == "cast":
                        stars = max(stars, a[1].count("*"))
                    elif a[0] in ("iconv", "decay", "stmtexpr"):
                        continue
                    else:
                        break
                if (f.name, key) in exc:
                    r.exc(f, key, exc[(f.name, key)], line)
                elif g is None:
                    r.bad(f, key, "`%s` is computed and used without a dominating test of ATF_POINTER: for a member stored through a "
                                  "pointer this is the address of the pointer, not of the value" % tree_text(raw), line)
                elif g and stars < 2:
                    r.bad(f, key, "on the ATF_POINTER edge `%s` is not read as a pointer to the member pointer" % tree_text(raw), line)
                elif (not g) and stars >= 2:
                    r.bad(f, key, "on the by-value edge `%s` is read as a pointer to a pointer" % tree_text(raw), line)
                else:
                    r.ok(f, key, "%s edge, read as %s" % ("pointer" if g else "by-value", "pointer-to-pointer" if stars >= 2 else "the value's address"), line)
    return r


def thorough(ctx):
    from .. import selftest
    import sys
    return selftest.run_mutants("C13", sys.modules[__name__])
