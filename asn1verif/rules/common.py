"""Roles derived from the program model, shared by several properties."""
from ..model import OP_SLOTS, walk, strip_casts, is_var, const_of, tree_vars

DECODER_SLOTS = ["ber_decoder", "xer_decoder", "oer_decoder", "uper_decoder"]
ENCODER_SLOTS = ["der_encoder", "xer_encoder", "oer_encoder", "uper_encoder"]
CODEC_SLOTS = [s for s in OP_SLOTS if s != "random_fill"]


def slot_functions(prog, slots):
    out = set()
    for s in slots:
        for n in prog.slot_funcs.get(s, ()):
            f = prog.func(n)
            if f is not None:
                out.add(f.key)
    return out


def has_constr_signature(f):
    """asn_constr_check_f: int (const asn_TYPE_descriptor_t *, const void *, asn_app_constraint_failed_f *, void *)"""
    pt = [p["type"].replace("struct asn_TYPE_descriptor_s", "asn_TYPE_descriptor_t") for p in f.params]
    return f.ret_type == "int" and len(pt) == 4 and "asn_TYPE_descriptor_t" in pt[0] and pt[1].startswith("const void") \
        and "asn_app_constraint_failed_f" in pt[2] and pt[3].startswith("void")


def constraint_functions(prog):
    out = set()
    for f in prog.funcs.values():
        if has_constr_signature(f):
            out.add(f.key)
    for n in prog.field_funcs.get("general_constraints", ()):
        f = prog.func(n)
        if f is not None:
            out.add(f.key)
    return out


def is_random_fill(prog, f):
    return "random" in f.name or f.relfile.endswith("asn_random_fill.c") or \
        f.name in prog.slot_funcs.get("random_fill", ())


def static_objects(prog):
    """name/id -> global dict for objects with static storage that are writable."""
    out = {}
    for g in prog.globals:
        if not g.get("definition") and not g.get("static_local"):
            continue
        out[g["id"]] = g
    return out


def term_cond(b):
    t = b.term
    if t and "cond" in t:
        return t["cond"]
    return None
