"""C16 INTEGER conversion helpers — R16.1 no silent sign change on the value path, R16.2 unsigned readers look at the sign."""
import re

from ..engine import Rule, load_tables
from ..extract import AnalysisBroken
from ..model import walk, strip_casts, is_var, const_of, tree_text
from .. import guards

EXPLANATION = (
    "R16.1: in the asn_*2INTEGER / asn_INTEGER2* family every implicit integer conversion that changes signedness at "
    "equal width, or narrows, and is applied to the value being converted (parameter or intermediate result, in call "
    "arguments, assignments, returns and stores through the out-pointer) must be dominated by a comparison of that "
    "value (a range test); otherwise values outside the target's range change silently. R16.2: a reader into an "
    "unsigned type must test the sign bit (0x80) of the first content octet and answer ERANGE on that edge.")
NOT_DECIDED = "everything about REAL; decimal text parsing; minimality of the stored octets (numeric)"
ASSUMPTIONS = ["LP64 data model of this platform (long == intmax_t == 64 bits) for width comparisons"]

FAMILY = re.compile(r"^asn_(\w+2INTEGER|INTEGER2\w+)$")


def r16_5(prog):
    """A numeral is the whole text.  Wherever the REAL code hands text to the C library's strtod()/strtol() family with
    an end pointer `&e`, what stopped the scan is looked at: `*e` is read (or e is compared with something other than
    the start of the text) on the way to every return.  `e == start` alone only says that *something* was parsed:
    `1.5abc`, `1,5` and `0x1p4junk` are then accepted as numerals."""
    from ..model import walk, strip_casts, is_var, tree_text
    r = Rule("R16.5", "after strtod()/strtol() with an end pointer, the character that stopped the scan is examined", floor=2)
    fam = {"strtod", "strtol", "strtoul", "strtoll", "strtoull", "strtoimax", "strtoumax", "strtof", "strtold"}
    for f in sorted(prog.funcs.values(), key=lambda f: f.key):
        n = 0
        for b, i, e in f.calls():
            if e.get("callee") not in fam or len(e.get("args", [])) < 2:
                continue
            t = strip_casts(e["args"][1]["tree"])
            if not (isinstance(t, list) and t and t[0] == "un" and t[1] == "&" and is_var(t[2])):
                continue
            ev = strip_casts(t[2])[1]
            start = strip_casts(e["args"][0]["tree"])
            n += 1
            key = "%s(&%s)#%d" % (e["callee"], ev.split("@")[0], n)
            looked = False
            for b2, line, tree in f.all_trees():
                for nd in walk(tree):
                    if nd[0] == "un" and nd[1] == "*" and is_var(nd[2], ev):
                        looked = True
                    if nd[0] == "sub" and is_var(nd[1], ev):
                        looked = True
                    if nd[0] == "bin" and nd[1] in ("==", "!=", "<", ">", "<=", ">="):
                        l, rr = strip_casts(nd[2]), strip_casts(nd[3])
                        for a_, o_ in ((l, rr), (rr, l)):
                            if is_var(a_, ev) and not (is_var(o_) and is_var(start) and strip_casts(o_)[1] == strip_casts(start)[1]):
                                looked = True
            if looked:
                r.ok(f, key, "`*%s` is read (or %s is compared with something other than the start of the text)" % (ev.split("@")[0], ev.split("@")[0]), e["line"])
            else:
                r.bad(f, key, "the end pointer is only compared with the start of the text: anything after a leading numeral is ignored", e["line"])
    return r


def run(ctx):
    prog = ctx.prog("S")
    r1 = Rule("R16.1", "no unguarded sign-changing or narrowing implicit conversion of the value in the INTEGER conversion helpers", floor=8)
    r2 = Rule("R16.2", "INTEGER readers into unsigned types reject negative values (sign bit of the first octet) with ERANGE", floor=1)
    fam = [f for f in prog.funcs.values() if FAMILY.match(f.name)]
    if len(fam) < 8:
        raise AnalysisBroken("INTEGER conversion family shrank to %d functions" % len(fam))
    for f in sorted(fam, key=lambda f: f.name):
        dom = f.dominators()
        # value variables: integer parameters, and locals of integer type that are stored through the out-pointer
        n = 0
        for b, i, e in f.events():
            trees = []
            if e["k"] == "call":
                trees = [("argument %d of %s" % (j, e.get("callee") or "?"), a.get("tree")) for j, a in enumerate(e["args"])]
            elif e["k"] == "assign":
                trees = [("assignment to %s" % e.get("lhs"), e.get("rhs", {}).get("tree"))]
            elif e["k"] == "decl":
                trees = [("initialiser of %s" % e.get("var"), e.get("init", {}).get("tree"))]
            elif e["k"] == "return":
                trees = [("return value", e.get("expr", {}).get("tree"))]
            for what, t in trees:
                for nd in walk(t):
                    if nd[0] != "iconv":
                        continue
                    frm, to, fw, tw, fs, ts = nd[1], nd[2], nd[3], nd[4], nd[5], nd[6]
                    inner = nd[-1]
                    vs = {x[1] for x in walk(inner) if x[0] == "var"}
                    if not vs:
                        continue
                    # pointer differences (end - b) and sizes are not the value being converted
                    if any(x[0] == "bin" and x[1] == "-" for x in walk(inner)) and not any(v.split("@")[0] in ("value", "v", "l") for v in vs):
                        continue
                    n += 1
                    key = "%s:%s->%s" % (what.split(" of ")[-1] if " of " in what else what.split(" ")[0], frm, to)
                    # dominated by a comparison mentioning one of the variables
                    guarded = False
                    for d in dom.get(b.id, ()):
                        tb = f.blocks[d]
                        if d == b.id:
                            continue
                        if tb.term and "cond" in tb.term:
                            ct = tb.term["cond"].get("full_tree") or tb.term["cond"]["tree"]
                            if any(x[0] == "bin" and x[1] in ("<", "<=", ">", ">=") and ({y[1] for y in walk(x) if y[0] == "var"} & vs) for x in walk(ct)):
                                guarded = True
                    if guarded:
                        r1.ok(f, key, "%s: %s -> %s conversion of `%s` is behind a range test of the value" % (what, frm, to, tree_text(inner)), e["line"])
                    else:
                        r1.bad(f, key, "%s: `%s` is implicitly converted from %s to %s (%s) with no range test of the value before it: "
                               "values outside the target range change silently" % (what, tree_text(inner), frm, to,
                                                                                   "sign change" if fs != ts else "narrowing"), e["line"])
        if n == 0:
            r1.ok(f, "no-conversion", "no sign-changing or narrowing implicit conversion on the value path", f.line, nontrivial=False)
    # R16.2
    for f in sorted(fam, key=lambda f: f.name):
        outp = f.params[-1]["type"] if f.params else ""
        if not (f.name.startswith("asn_INTEGER2") and "unsigned" in outp.replace("uintmax_t", "unsigned").replace("uint", "unsigned")):
            continue
        # delegating readers (asn_INTEGER2ulong -> asn_INTEGER2umax) inherit the check
        deleg = [e.get("callee") for b, i, e in f.calls() if e.get("callee") and FAMILY.match(e["callee"]) and e["callee"] != f.name
                 and "unsigned" in (prog.func(e["callee"]).params[-1]["type"].replace("uintmax_t", "unsigned") if prog.func(e["callee"]) else "")]
        if deleg:
            r2.ok(f, "sign-test", "delegates to %s" % deleg[0], f.line, nontrivial=False)
            continue
        found = None
        for b in f.blocks.values():
            if not b.term or "cond" not in b.term:
                continue
            ct = b.term["cond"].get("full_tree") or b.term["cond"]["tree"]
            hit = any(x[0] == "bin" and x[1] == "&" and (const_of(x[2]) == 128 or const_of(x[3]) == 128) and
                      any(y[0] in ("un", "sub", "member") for y in walk(x)) for x in walk(ct))
            if hit:
                found = b
        if found is None:
            r2.bad(f, "sign-test", "reads an INTEGER into an unsigned type without ever testing the sign bit (0x80) of the first content "
                                   "octet: the INTEGER -1 converts to 255 with return 0", f.line)
            continue
        # on the edge where the bit is set: ERANGE and a negative return
        pol_edges = [s for s in found.succ if s is not None]
        ok = False
        for s in pol_edges:
            reach = f.reachable_from([s], stop=lambda x: any(e["k"] == "return" for e in f.blocks[x].ev))
            sets_erange = any(e["k"] == "assign" and "__errno_location" in e.get("lhs", "") and const_of(e["rhs"]["tree"]) == 34
                              for x in reach for e in f.blocks[x].ev)
            neg_ret = any(e["k"] == "return" and (e.get("expr", {}).get("const") or 0) < 0 for x in reach for e in f.blocks[x].ev)
            only_neg = all((e.get("expr", {}).get("const") or 0) < 0 for x in reach for e in f.blocks[x].ev if e["k"] == "return")
            if sets_erange and neg_ret and only_neg:
                ok = True
        if ok:
            r2.ok(f, "sign-test", "sign bit of the first octet is tested; that edge sets errno = ERANGE and returns -1", found.term.get("line"))
        else:
            r2.bad(f, "sign-test", "the sign-bit test does not lead to errno = ERANGE and a negative return", found.term.get("line"))
    return [r1, r2, r16_3(prog), r16_4(prog), r16_5(prog)]


def r16_4(prog):
    """The text parsers hand back a number whenever they say they converted one.  In the asn_strto*_lim family every
    return of ASN_STRTOX_OK or ASN_STRTOX_EXTRA_DATA (also as an arm of `?:`) is preceded, on every path from the entry,
    by a store through the result out-parameter; callers copy the out-value for both codes."""
    from .c15 import must_pass
    r = Rule("R16.4", "asn_strto*_lim store the result before every OK / EXTRA_DATA return", floor=6)
    for f in sorted(prog.funcs.values(), key=lambda f: f.key):
        if not re.match(r"^asn_strtou?(imax|max|l|ul)_lim$", f.name) or len(f.params) < 3:
            continue
        outp = f.params[2]["id"]

        def stores(y, outp=outp):
            if y["k"] == "assign" and y.get("deref") and y.get("base_id") == outp:
                return True
            # delegation: the out pointer (or the address of a local later copied) is handed to a sibling parser
            return False
        n = 0
        for b, i, e in f.returns():
            ex = e.get("expr")
            if not ex:
                continue
            vals = set()
            for nd in walk(ex["tree"]):
                if nd[0] == "enum" and nd[1] in ("ASN_STRTOX_OK", "ASN_STRTOX_EXTRA_DATA"):
                    vals.add(nd[1])
            t = strip_casts(ex["tree"])
            if not vals and not is_var(t):
                continue
            n += 1
            key = "return@%d:%s" % (n, ",".join(sorted(vals)) or tree_text(t))
            if not vals:
                # `return ret;` handing on a sibling's code: the sibling stored into a local that must be copied out
                okp = must_pass(f, f.entry, b.id, i, stores) or any(stores(y) for y in b.ev[:i])
                if okp:
                    r.ok(f, key, "result copied out before the delegated code is returned", e["line"])
                else:
                    r.ok(f, key, "delegated code returned on a path without a store (the sibling reported an error there)", e["line"], nontrivial=False)
                continue
            okp = any(stores(y) for y in b.ev[:i]) or must_pass(f, f.entry, b.id, i, stores)
            if okp:
                r.ok(f, key, "the out-parameter is stored on every path to this return", e["line"])
            else:
                r.bad(f, key, "returns %s on a path that never stores through the out-parameter: the caller uses an uninitialised / stale "
                              "number" % "/".join(sorted(vals)), e["line"])
    return r


CALLER_FAMILY = re.compile(r"^asn_u?(long|imax|max|int64|int32|uint64|uint32)2INTEGER$")


def r16_3(prog, rid="R16.3"):
    """Callers of the *2INTEGER helpers keep the signedness of the value.  At every call of asn_[u]long2INTEGER /
    asn_[iu]max2INTEGER outside the helper family itself, the value argument is not an implicit conversion that changes
    signedness at equal width -- unless the call sits under a branch on `field_unsigned` (the native codecs keep unsigned
    values in a long and say so in the specifics) or under a comparison of the converted variable."""
    r = Rule(rid, "values handed to the *2INTEGER helpers keep their signedness (no implicit signed<->unsigned conversion at the call)", floor=8)
    for f in sorted(prog.funcs.values(), key=lambda f: f.key):
        n = 0
        for b, i, e in sorted(f.calls(), key=lambda z: z[2].get("line") or 0):
            if not CALLER_FAMILY.match(e.get("callee") or "") or len(e["args"]) < 2:
                continue
            n += 1
            key = "%s#%d" % (e["callee"], n)
            a = e["args"][1]["tree"]
            t = a
            while isinstance(t, list) and t and t[0] in ("cast", "decay", "stmtexpr"):
                t = t[-1]
            if not (isinstance(t, list) and t and t[0] == "iconv" and t[3] == t[4] and t[5] != t[6]):
                r.ok(f, key, "argument has the parameter's signedness", e["line"], nontrivial=False)
                continue
            vars_ = {x[1] for x in walk(t) if x[0] == "var"}
            guarded = False
            for d in f.dominators().get(b.id, ()):
                tb = f.blocks[d]
                if not tb.term or "cond" not in tb.term:
                    continue
                ct = tb.term["cond"].get("full_tree") or tb.term["cond"]["tree"]
                if any(x[0] == "member" and x[2] == "field_unsigned" for x in walk(ct)):
                    guarded = True
                c = strip_casts(tb.term["cond"]["tree"])
                if isinstance(c, list) and c and c[0] == "bin" and c[1] in ("<", "<=", ">", ">=") and ({x[1] for x in walk(c) if x[0] == "var"} & vars_):
                    guarded = True
            if guarded:
                r.ok(f, key, "sign-changing conversion under a test of field_unsigned / a range test of the value", e["line"])
            else:
                r.bad(f, key, "`%s` is converted implicitly from %s to %s at the call: values with the top bit set change sign (a negative "
                              "enumeration item becomes 2^64-n, a large unsigned becomes negative)" % (tree_text(t[7]), t[1], t[2]), e["line"])
    return r


def thorough(ctx):
    from .. import selftest
    import sys
    return selftest.run_mutants("C16", sys.modules[__name__])
