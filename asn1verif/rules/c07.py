"""C07 encoder API contract — R07.1 failed writes are never lost, R07.2 loops make progress, R07.3 NULL-slot
dispatch (encoder side), R07.4 wrapper contract in asn_application.c."""
from ..engine import Rule, load_tables
from ..extract import AnalysisBroken
from ..model import walk, strip_casts, is_var, const_of, tree_text, tree_vars
from ..retabs import enc_return, scalar_return
from .. import assume, guards
from . import nullslot, common, loops

EXPLANATION = (
    "R07.1: the set of fallible-output functions is computed (least set containing every function that calls a "
    "parameter of type asn_app_consume_bytes_f or the output field of a bit-output object, closed under 'returns "
    "non-void and calls a member', including calls through encoder/print slots). For every call to one of them the "
    "result must be held somewhere (not discarded, not void-cast); then, assuming the result is a failure value, the "
    "CFG is explored from the call with every branch that tests the result evaluated under that assumption: no "
    "return other than a failing one (or the result itself) may be reachable. R07.2: in functions reachable from an "
    "encoder slot a loop whose continuation condition reads only local variables none of which is written on some cycle "
    "through the header never terminates once entered. R07.3: NULL-slot dispatch for the four encoder slots. R07.4: "
    "in asn_application.c the buffer callbacks bound every memcpy by a comparison with the buffer size and return 0 on "
    "every path; asn_encode sets errno to EIO wherever the callback failed.")
NOT_DECIDED = ("numerical equality of reported size and delivered bytes for hand-counted output; off-by-one in the buffer "
               "comparison")
ASSUMPTIONS = ["application callbacks report failure by a negative return (asn_application.h)",
               "library functions report failure by -1 (checked per callee by the return abstraction)"]

CB_TYPES = ("asn_app_consume_bytes_f",)


def fallible_functions(prog):
    cg = prog.callgraph()
    base = set()
    for f in prog.funcs.values():
        for b, i, e in f.calls():
            if is_cb_call(e):
                base.add(f.key)
    fall = set(k for k in base if prog.funcs[k].ret_type != "void")
    changed = True
    while changed:
        changed = False
        for f in prog.funcs.values():
            if f.key in fall or f.ret_type == "void":
                continue
            for b, i, e, tg in cg.sites[f.key]:
                if any(t in fall for t in tg) or (e.get("slot") in common.ENCODER_SLOTS + ["print_struct"] and "asn_TYPE_operation" in e.get("slot_struct", "")):
                    fall.add(f.key)
                    changed = True
                    break
    return fall


def is_cb_call(e):
    if "callee" in e:
        return False
    ft = e.get("fp_type", "")
    if any(c in ft for c in CB_TYPES):
        return True
    # the same signature spelled out: int (*)(const void *, size_t, void *)
    if ft.replace(" ", "") in ("int(*)(constvoid*,size_t,void*)", "int(constvoid*,size_t,void*)"):
        return True
    if e.get("slot") == "output" and "asn_bit_outp" in e.get("slot_struct", ""):
        return True
    return False


def site_target(prog, f, e, fall):
    """name of the fallible thing called, or None"""
    if "callee" in e:
        cal = prog.resolve_direct(e["callee"], f)
        if cal is not None and cal.key in fall:
            return cal.name
        return None
    if is_cb_call(e):
        return "cb:" + (e.get("fp_var", "").split("@")[0] or e.get("slot") or "?")
    if e.get("slot") in common.ENCODER_SLOTS + ["print_struct"] and "asn_TYPE_operation" in e.get("slot_struct", ""):
        return "->" + e["slot"]
    return None


def make_classifier(f):
    enc = "asn_enc_rval" in f.ret_type

    ptr = f.ret_type.rstrip().endswith("*")
    enum = f.ret_type.startswith("enum ")

    def classify(b, i, e, env=None):
        env = env or {}
        ex = e.get("expr")
        t = strip_casts(ex["tree"]) if ex else None
        if enc and is_var(t):
            v = env.get((t[1], "encoded"))
            if isinstance(v, int):
                return "fail" if v < 0 else "success"
            if v == "nonconst":
                return "success"
        if not enc and is_var(t):
            v = env.get((t[1], None))
            if isinstance(v, int):
                if ptr:
                    return "fail" if v == 0 else "success"
                if enum:
                    return "fail" if v != 0 else "success"
                return "fail" if v < 0 else "success"
        if (ptr or enum) and ex and "const" in ex:
            if ptr:
                return "fail" if ex["const"] == 0 else "success"
            return "fail" if ex["const"] != 0 else "success"
        if enc:
            r = enc_return(f, b, i, e)
            if r == "FAIL":
                return "fail"
            if r == "OK":
                return "success"
            return "unknown:" + r
        r = scalar_return(f, b, i, e)
        if r[0] == "const":
            return "fail" if r[1] < 0 else "success"
        if r[0] == "ternary":
            return "unknown:ternary"
        if r[0] == "var":
            # last constant assigned on the straight-line chain
            from ..retabs import _back_events
            for x in _back_events(f, b, i):
                if x["k"] == "assign" and x.get("base_id") == r[1] and x.get("lhs") == x.get("base") and x.get("op") == "=":
                    c = const_of(x["rhs"]["tree"])
                    if c is not None:
                        return "fail" if c < 0 else "success"
                    break
                if x["k"] == "decl" and x.get("id") == r[1] and "init" in x:
                    c = const_of(x["init"]["tree"])
                    if c is not None:
                        return "fail" if c < 0 else "success"
                    break
            return "unknown:var"
        if r[0] == "void":
            return "success"
        return "unknown:" + r[0]
    return classify


def r07_1(prog, rule, tab):
    fall = fallible_functions(prog)
    rule.note("fallible-output functions: %d" % len(fall))
    skip_fn = {x["function"]: x["reason"] for x in tab.get("r07_1_function_exceptions", [])}
    site_exc = {(x["function"], x["key"]): x["reason"] for x in tab.get("r07_1_site_exceptions", [])}
    stats = {}
    for f in sorted(prog.funcs.values(), key=lambda f: f.key):
        classify = make_classifier(f)
        for b, i, e in f.calls():
            tgt = site_target(prog, f, e, fall)
            if tgt is None:
                continue
            use = e.get("use")
            stats[use] = stats.get(use, 0) + 1
            key = tgt
            if f.name in skip_fn:
                rule.exc(f, key, skip_fn[f.name], e["line"])
                continue
            if (f.name, key) in site_exc:
                rule.exc(f, key, site_exc[(f.name, key)], e["line"])
                continue
            if f.ret_type == "void":
                # a void function cannot report; its callers cannot know. Only acceptable when the failure is recorded
                # through an out-parameter/field (none today) -> report
                if use in ("discarded", "voidcast"):
                    rule.bad(f, key, "output failure discarded in a void function: the write error cannot reach the caller", e["line"])
                else:
                    rule.ok(f, key, "void function, result consumed (%s)" % use, e["line"])
                continue
            if use in ("discarded", "voidcast"):
                rule.bad(f, key, "result of fallible output call is discarded: a failed write is reported as success", e["line"])
                continue
            if use == "returned":
                rule.ok(f, key, "result returned to the caller", e["line"], nontrivial=False)
                continue
            struct_field = "encoded" if "asn_enc_rval" in e.get("ret_type", "") else None
            subj = assume.subject_of_call(e, struct_field)
            if subj is None:
                rule.bad(f, key, "result of fallible output call is used as `%s` and never tested" % use, e["line"])
                continue
            values = (-1, -2) if tgt.startswith("cb:") else (-1,)
            if e.get("ret_type", "").rstrip().endswith("*"):
                values = (0,)   # pointer-returning fallible helpers report failure by NULL
            bad = None
            for v in values:
                hits = assume.explore(f, b, i, subj, v, classify, origin_callid=e.get("id"), from_entry=False)
                if any(h[0] != "fail" for h in hits):
                    # confirm with the path-sensitive walk from the function entry (facts from earlier branches)
                    hits = assume.explore(f, b, i, subj, v, classify, origin_callid=e.get("id"), from_entry=True)
                for kind, rb, ri, re, path, lost in hits:
                    if kind == "success" or kind == "abort" or kind.startswith("unknown"):
                        bad = (v, kind, rb, ri, re, path, lost)
                        break
                if bad:
                    break
            if bad is None:
                rule.ok(f, key, "assuming the call failed, only failing returns are reachable", e["line"])
            else:
                v, kind, rb, ri, re, path, lost = bad
                what = "the success return" if kind == "success" else ("an assert/abort (the failure is only asserted, the process dies)" if kind == "abort" else "the unclassified (%s) return" % kind)
                rule.bad(f, key, "assuming this call returned %d, control reaches %s at line %s%s" % (
                    v, what, re["line"],
                    " after the result was overwritten" if lost else ""), e["line"],
                    witness={"assumed": v, "return_line": re["line"], "return_kind": kind,
                             "path": guards.path_lines(f, list(path))})
    rule.note("uses: %s" % stats)


def r07_5(prog, tab):
    """Sibling encoders of the same interface agree on when a value is rejected because of its constraint."""
    r = Rule("R07.5", "sibling encoders reject the same constraint violations (cross-check of the failing conditions on the constraint)", floor=1)
    for grp in tab.get("sibling_groups", []):
        fs = [prog.func(n) for n in grp["functions"]]
        if any(f is None for f in fs):
            continue
        about = set(grp["about_vars"])
        sets = []
        for f in fs:
            cl = make_classifier(f)
            out = {}
            for b in f.blocks.values():
                if not b.term or "cond" not in b.term or len(b.succ) < 2:
                    continue
                ct = b.term["cond"].get("full_tree") or b.term["cond"]["tree"]
                if not ({n[1].split("@")[0] for n in walk(ct) if n[0] == "var"} & about):
                    continue
                for idx, s_ in enumerate(b.succ):
                    if s_ is None:
                        continue
                    kinds = set()
                    for rb in f.reachable_from([s_]):
                        for i, e in enumerate(f.blocks[rb].ev):
                            if e["k"] == "return":
                                kinds.add(cl(f.blocks[rb], i, e))
                    if kinds == {"fail"}:
                        out[(guards.canon(b.term["cond"]["tree"]), idx)] = b.term.get("line")
            sets.append(out)
        allc = set()
        for o in sets:
            allc |= set(o)
        for c in sorted(allc):
            have = [f.name for f, o in zip(fs, sets) if c in o]
            key = "reject-if:%s:%s" % (c[0], "true" if c[1] == 0 else "false")
            if len(have) == len(fs):
                r.ok(fs[0], key, "all of %s reject on this condition" % ", ".join(f.name for f in fs), sets[0].get(c))
            else:
                miss = [f for f in fs if f.name not in have]
                for f in miss:
                    r.bad(f, key, "%s rejects the value when `%s` is %s, its sibling %s does not: a value violating the constraint is encoded "
                                  "instead of failing" % (", ".join(have), c[0], "true" if c[1] == 0 else "false", f.name), f.line)
    return r


def r07_7(prog, cfg):
    """A failing encoder result names the type that failed.  asn_encode_internal tells `the structure is ill-formed /
    the output failed` (errno EBADF, later EIO) from `no such codec` (ENOENT) by er.failed_type, and asn_encode asserts
    the former after a failed callback.  Sites: a fallible call whose result is stored in the `encoded` field of a local
    asn_enc_rval_t.  Assuming it answered -1, no return of that object may be reachable on which its failed_type was
    last set to the constant 0 (the ASN__ENCODED_OK exit)."""
    r = Rule("R07.7", "an encoder result with encoded == -1 is never returned with failed_type cleared", floor=8 if cfg == "default" else 0)
    fall = fallible_functions(prog)
    for f in sorted(prog.funcs.values(), key=lambda f: f.key):
        if "asn_enc_rval" not in f.ret_type:
            continue
        for b, i, e in f.calls():
            if site_target(prog, f, e, fall) is None or e.get("use") != "assigned":
                continue
            lt = strip_casts(e.get("useinfo", {}).get("lhs_tree"))
            if not (isinstance(lt, list) and lt and lt[0] == "member" and lt[2] == "encoded" and not lt[3] and is_var(lt[1])):
                continue
            var = strip_casts(lt[1])[1]
            key = "%s.encoded=%s" % (var.split("@")[0], site_target(prog, f, e, fall))
            subj = assume.Subject("var", var=var, field="encoded")

            def classify(rb, ri, re_, env=None, var=var):
                env = env or {}
                ex = re_.get("expr")
                t = strip_casts(ex["tree"]) if ex else None
                if is_var(t, var) and env.get((var, "failed_type")) == 0 and env.get((var, "encoded"), -1) in (-1, "nonconst", None):
                    return "success"
                return "fail"
            hits = assume.explore(f, b, i, subj, -1, classify, origin_callid=e.get("id"), from_entry=False, subject_return_ok=False)
            hits = [h for h in hits if h[0] == "success"]
            if hits:
                kind, rb, ri, re_, path, lost = hits[0]
                r.bad(f, key, "assuming this call answered -1, the object is returned at line %s with failed_type cleared (the success exit): "
                              "asn_encode_internal reports `no such codec` (ENOENT) and asn_encode's assertion on a failed callback aborts" % re_.get("line"),
                      e["line"], witness={"path": guards.path_lines(f, list(path))})
            else:
                r.ok(f, key, "assuming -1, every return of the object keeps (or sets) failed_type", e["line"])
        # the failure code written as a constant: `er.encoded = -1` on an object that may hold a success result
        from .c15 import must_pass
        n = 0
        for b, i, e in f.events("assign"):
            lt = strip_casts(e.get("lhs_tree"))
            if not (isinstance(lt, list) and lt and lt[0] == "member" and lt[2] == "encoded" and not lt[3] and is_var(lt[1])):
                continue
            if e.get("op") != "=" or "rhs" not in e or const_of(e["rhs"]["tree"]) != -1:
                continue
            var = strip_casts(lt[1])[1]
            n += 1
            key = "%s.encoded=-1#%d" % (var.split("@")[0], n)

            def names(y, var=var):
                if y["k"] != "assign" or y.get("op") != "=" or "rhs" not in y:
                    return False
                l2 = strip_casts(y.get("lhs_tree"))
                return (isinstance(l2, list) and l2 and l2[0] == "member" and l2[2] == "failed_type" and is_var(l2[1], var)
                        and const_of(y["rhs"]["tree"]) != 0)
            bad = None
            for rb, ri, re_ in f.returns():
                ex = re_.get("expr")
                if not (ex and is_var(ex["tree"], var)):
                    continue
                if rb.id == b.id and ri > i:
                    okp = any(names(y) for y in b.ev[i + 1:ri])
                elif rb.id in f.reachable_from(b.succs()):
                    okp = any(names(y) for y in b.ev[i + 1:]) or all(must_pass(f, s_, rb.id, ri, names) for s_ in b.succs())
                else:
                    continue
                if not okp:
                    bad = re_
                    break
            if bad is None:
                r.ok(f, key, "failed_type is given a type on every path from here to a return of the object", e["line"])
            else:
                r.bad(f, key, "`%s.encoded = -1` and the object is returned at line %s without failed_type being set: what it holds is the "
                              "0 of an earlier success, and asn_encode_internal reports `no such codec` (ENOENT)" % (var.split("@")[0], bad.get("line")), e["line"])
    for i in r.insts:
        i.config = cfg
    return r


def r07_8(prog, cfg):
    """`Non-negative return values indicate success, and ignored` (asn_application.h).  Every test of an output
    callback's result -- and of a function that returns such a result unchanged -- is a comparison `< 0`; a truth test or
    `!= 0` turns a callback that reports, say, the number of bytes it wrote into a failed encoding."""
    r = Rule("R07.8", "the result of an output callback is only ever tested by `< 0`", floor=150 if cfg == "default" else 50)
    # functions that hand a raw callback result back
    raw = set()
    for f in prog.funcs.values():
        for b, i, e in f.calls():
            if is_cb_call(e) and e.get("use") == "returned":
                raw.add(f.name)
    r.note("functions returning a raw callback result: %s" % sorted(raw))
    for f in sorted(prog.funcs.values(), key=lambda f: f.key):
        n = 0
        for b, i, e in f.calls():
            israw = e.get("callee") in raw
            if not (is_cb_call(e) or israw):
                continue
            n += 1
            key = "%s#%d" % ("cb" if not israw else e["callee"], n)
            use = e.get("use")
            ui = e.get("useinfo", {})
            if use == "compared":
                c = strip_casts(ui.get("cmp"))
                okc = isinstance(c, list) and c and c[0] == "bin" and ((c[1] == "<" and const_of(c[3]) == 0) or (c[1] == ">=" and const_of(c[3]) == 0)
                                                                    or (c[1] == "==" and const_of(c[3]) == -1) or (c[1] == "!=" and const_of(c[3]) == -1))
                if okc:
                    r.ok(f, key, "tested by `%s`" % tree_text(c)[-8:], e["line"], nontrivial=False)
                else:
                    r.bad(f, key, "the callback result is tested by `%s`: a non-negative, non-zero answer (success by contract) is taken for a failure" % tree_text(c), e["line"])
            elif use == "cond":
                r.bad(f, key, "the callback result is tested for truth: a non-negative, non-zero answer (success by contract) is taken for a failure", e["line"])
            elif use in ("assigned", "init"):
                v = ui.get("var") or (strip_casts(ui["lhs_tree"])[1] if ui.get("lhs_tree") is not None and is_var(ui["lhs_tree"]) else None)
                badc = None
                if v:
                    # every direct test of the holder
                    defs = sum(1 for b2, i2, d in f.events() if (d["k"] == "assign" and d.get("base_id") == v and d.get("lhs") == d.get("base")) or (d["k"] == "decl" and d.get("id") == v and "init" in d))
                    cbdefs = sum(1 for b2, i2, d in f.calls() if (is_cb_call(d) or d.get("callee") in raw) and d.get("use") in ("assigned", "init")
                                 and ((d.get("useinfo", {}).get("var") == v) or (d.get("useinfo", {}).get("lhs_tree") is not None and is_var(d["useinfo"]["lhs_tree"], v))))
                    if defs == cbdefs:      # the variable holds nothing but callback results
                        for bl in f.blocks.values():
                            if not bl.term or "cond" not in bl.term:
                                continue
                            c = strip_casts(bl.term["cond"]["tree"])
                            neg = c
                            while isinstance(neg, list) and neg and neg[0] == "un" and neg[1] == "!":
                                neg = strip_casts(neg[2])
                            if is_var(neg, v):
                                badc = (bl.term.get("line"), tree_text(c))
                            elif isinstance(c, list) and c and c[0] == "bin" and is_var(strip_casts(c[2]), v) and c[1] in ("!=", "==", ">") and const_of(c[3]) == 0:
                                badc = (bl.term.get("line"), tree_text(c))
                if badc:
                    r.bad(f, key, "the stored callback result is tested by `%s` at line %s: a non-negative, non-zero answer (success by contract) is "
                                  "taken for a failure" % (badc[1], badc[0]), e["line"])
                else:
                    r.ok(f, key, "stored result is only tested against negative values", e["line"], nontrivial=False)
            elif use in ("returned", "compound_assigned"):
                r.ok(f, key, "result returned / or-ed into a status", e["line"], nontrivial=False)
            else:
                r.ok(f, key, "result use: %s" % use, e["line"], nontrivial=False)
    for i in r.insts:
        i.config = cfg
    return r


def r07_9(prog, cfg):
    """An ill-formed list (NULL element pointer) is refused, not dereferenced.  In every encoder-side function, a local
    that is loaded from `list->array[i]` (an element of a SET OF / SEQUENCE OF) and then handed to an encoder -- a member
    encoder slot, uper_encode, or any function reachable from an encoder slot that takes the structure pointer -- must
    not reach that call while it can still be NULL (assume-NULL: every test of the local takes its zero edge).  The DER,
    XER and UPER paths test it; agreement across the sibling encoders is what the rule enforces."""
    r = Rule("R07.9", "an element pointer taken from a SET OF / SEQUENCE OF list is tested for NULL before it is handed to an encoder", floor=4 if cfg == "default" else 0)
    cg = prog.callgraph()
    scope = cg.reachable(common.slot_functions(prog, common.ENCODER_SLOTS))
    for k in sorted(scope):
        f = prog.funcs[k]
        for b, i, e in f.events():
            tree = vid = None
            if e["k"] == "decl" and "init" in e:
                vid, tree = e["id"], e["init"]["tree"]
            elif e["k"] == "assign" and e.get("op") == "=" and e.get("lhs") == e.get("base") and not e.get("deref") and "rhs" in e:
                vid, tree = e.get("base_id"), e["rhs"]["tree"]
            if tree is None or not vid:
                continue
            t = strip_casts(tree)
            if not (isinstance(t, list) and t and t[0] == "sub" and any(n[0] == "member" and n[2] == "array" for n in walk(t[1]))):
                continue
            # uses as an argument of an encoder-ish call
            n = 0
            for b2, i2, x in f.calls():
                if not any(is_var(strip_casts(a.get("tree")), vid) for a in x.get("args", [])):
                    continue
                enc = (x.get("slot") in common.ENCODER_SLOTS + ["print_struct"]) or x.get("callee") in ("uper_encode", "der_encode", "xer_encode", "oer_encode")
                if not enc:
                    continue
                n += 1
                key = "%s->%s#%d" % (vid.split("@")[0], x.get("callee") or x.get("slot"), n)
                pth = guards.var_null_reachable(f, vid, b, i, b2)
                if pth is None:
                    r.ok(f, key, "unreachable while the element pointer is NULL", x["line"])
                else:
                    r.bad(f, key, "`%s` comes from the list's array and reaches this encoder call without a NULL test: a list holding a NULL "
                                  "element is dereferenced by the member encoder instead of failing the encoding" % vid.split("@")[0], x["line"],
                          witness={"path": guards.path_lines(f, pth)})
    for i_ in r.insts:
        i_.config = cfg
    return r


def run_config(prog, cfg):
    tab = load_tables("c07")
    ns = load_tables("nullslot")
    r1 = Rule("R07.1", "a failed output call (callback, bit writer, member encoder) always turns into a failing return", floor=300 if cfg == "default" else 100)
    r07_1(prog, r1, tab)
    r3 = Rule("R07.3", "no call through a NULL op-table slot on the encoder side", floor=10 if cfg == "default" else 4)
    nullslot.null_slot_rule(prog, r3, common.ENCODER_SLOTS, ns)
    r2 = Rule("R07.2", "every loop reachable from an encoder can end in success: its continuation does not depend only on "
                       "values the loop never changes", floor=60 if cfg == "default" else 20)
    cg = prog.callgraph()
    roots = common.slot_functions(prog, common.ENCODER_SLOTS + ["print_struct"]) | {f.key for f in prog.funcs.values() if not f.static and ("_encode" in f.name or f.name.startswith("asn_encode"))}
    scope = cg.reachable(roots)
    loops.loop_rule(prog, r2, scope, make_classifier, {(x["function"], x["key"]): x["reason"] for x in tab.get("r07_2_exceptions", [])})
    r4 = Rule("R07.4", "asn_application.c wrappers: bounded copy into the caller's buffer, size counted on every path, "
                       "failed callback becomes errno EIO", floor=12)
    r07_4(prog, r4)
    r5 = r07_5(prog, tab)
    if cfg != "default":
        r5.floor = 0
    # R07.6: an ill-formed structure (selector out of range, ...) must produce -1, not a read past a descriptor table:
    # rule R04.2 evaluated over everything reachable from the encoder, print and constraint entry points
    from . import c04
    r6 = c04.r04_2(prog, cfg, rid="R07.6", slots=common.ENCODER_SLOTS + ["print_struct"], floor=10 if cfg == "default" else 0)
    for r in (r1, r2, r3, r4, r5, r6):
        for i in r.insts:
            i.config = cfg
    from . import termination
    r10 = termination.rule_for(prog, "R07.10", "the encoders and printers", scope, 40 if cfg == "default" else 10, cfg)
    # R07.11: the text encoders and printers format through (v)snprintf into a scratch buffer and retry: the fit test and the
    # retry size follow C99 7.19.6.5 (rules/fit.py); a wrong one delivers truncated text (size accounting) or never returns
    from . import fit
    r11 = fit.snprintf_fit(prog, "R07.11", 5 if cfg == "default" else 3, "the runtime (printers, XER text encoders, constraint messages)")
    for i in r11.insts:
        i.config = cfg
    return [r1, r2, r3, r4, r5, r6, r07_7(prog, cfg), r07_8(prog, cfg), r07_9(prog, cfg), r10, r11]


def run(ctx):
    return run_config(ctx.prog("S"), "default")


def thorough(ctx):
    out = []
    for cfg in ("noper", "nooer"):
        out += run_config(ctx.prog("S", cfg), cfg)
    from .. import selftest
    import sys
    out += selftest.run_mutants("C07", sys.modules[__name__])
    return out


# ----------------------------------------------------------------------------------------------- R07.4
def _is_field(t, name):
    t = strip_casts(t)
    return isinstance(t, list) and t and t[0] == "member" and t[2] == name


def _overflow_tests(f):
    """blocks comparing (<computed_size> + size) with <buffer_size>; returns [(block, overflow succ index)]"""
    out = []
    for b in f.blocks.values():
        if not b.term or "cond" not in b.term:
            continue
        t = strip_casts(b.term["cond"]["tree"])
        if not (isinstance(t, list) and t[0] == "bin" and t[1] in (">", ">=", "<", "<=")):
            continue
        l, r = strip_casts(t[2]), strip_casts(t[3])
        op = t[1]
        def is_sum(x):
            return isinstance(x, list) and x[0] == "bin" and x[1] == "+" and any(_is_field(n, "computed_size") for n in walk(x))
        if is_sum(r) and _is_field(l, "buffer_size"):
            l, r = r, l
            op = {">": "<", ">=": "<=", "<": ">", "<=": ">="}[op]
        if is_sum(l) and _is_field(r, "buffer_size"):
            out.append((b, 0 if op in (">", ">=") else 1))
    return out


def _errno_assign(e):
    """constant stored into errno by event e, or None"""
    if e["k"] == "assign" and e.get("op") == "=" and "__errno_location" in (e.get("lhs") or "") and "rhs" in e:
        return e["rhs"].get("const")
    return None


def r07_4_errno(prog, rule):
    """asn_encode() asserts a particular errno after a failed callback before turning it into EIO.  Every way
    asn_encode_internal() can come back after a *direct* call of the callback failed must leave exactly that errno:
    from the failing edge of each direct callback call, every path to a return ends with errno last set to the asserted
    constant."""
    fa = prog.require("asn_encode")
    want = None
    for b, i, e in fa.events("assert"):
        t = e["cond"]["tree"]
        if isinstance(t, list) and t[0] == "bin" and t[1] == "==" and "__errno_location" in tree_text(t[2]):
            want = const_of(t[3])
    if want is None:
        rule.ok(fa, "errno-assert", "asn_encode no longer asserts a particular errno after a failed callback", fa.line, nontrivial=False)
        return
    f = prog.require("asn_encode_internal")
    n = 0
    for b, i, e in f.calls():
        if not is_cb_call(e):
            continue
        n += 1
        key = "callback#%d:errno" % n
        # failing edge: the call is tested `< 0` in its block's terminator
        starts = [(s_, None) for s_ in b.succs()]
        if b.term and "cond" in b.term and len(b.succ) >= 2:
            ct = strip_casts(b.term["cond"]["tree"])
            if isinstance(ct, list) and ct and ct[0] == "bin" and ct[1] == "<" and const_of(ct[3]) == 0:
                starts = [(b.succ[0], None)]
        bad = None
        seen = set()
        st = list(starts)
        while st and bad is None:
            bid, last = st.pop()
            if bid is None or (bid, last) in seen:
                continue
            seen.add((bid, last))
            blk = f.blocks[bid]
            stop = False
            for y in blk.ev:
                c = _errno_assign(y)
                if c is not None or (y["k"] == "assign" and "__errno_location" in (y.get("lhs") or "")):
                    last = c if c is not None else "nonconst"
                if y["k"] == "return":
                    if last != want:
                        bad = (y, last)
                    stop = True
                    break
            if not stop:
                st.extend((s_, last) for s_ in blk.succs())
        if bad is None:
            rule.ok(f, key, "after a failed callback errno is %d on every return, as asn_encode asserts" % want, e["line"])
        else:
            rule.bad(f, key, "after this callback call failed, the return at line %s is reached with errno last set to %s, but asn_encode asserts "
                             "errno == %d before mapping it to EIO: the process aborts instead of returning -1/EIO" % (bad[0].get("line"), bad[1], want), e["line"])


def r07_4_newbuf(prog, rule):
    """asn_encode_to_new_buffer: `On failure (.buffer) is NULL` (asn_application.h).  Assuming the encoder's result has
    encoded == -1, every return hands back an object whose buffer field was last set to the constant 0."""
    f = prog.require("asn_encode_to_new_buffer")
    site = None
    for b, i, e in f.calls():
        if e.get("callee") == "asn_encode_internal" and e.get("use") == "assigned":
            site = (b, i, e)
    if site is None:
        raise AnalysisBroken("asn_encode_to_new_buffer: call of asn_encode_internal not found")
    b, i, e = site
    lt = e["useinfo"].get("lhs_tree")
    text = tree_text(strip_casts(lt)) + ".encoded"
    subj = assume.Subject("var", var=None, lhs_text=text)
    resvar = [n[1] for n in walk(lt) if n[0] == "var"][0]

    def classify(rb, ri, re_, env=None):
        v = (env or {}).get((resvar, "buffer"))
        return "fail" if v == 0 else "success"
    hits = assume.explore(f, b, i, subj, -1, classify, origin_callid=e.get("id"), from_entry=False, subject_return_ok=False)
    hits = [h for h in hits if h[0] == "success"]
    if hits:
        kind, rb, ri, re_, path, lost = hits[0]
        rule.bad(f, "buffer-on-failure", "assuming the encoding failed (%s == -1) the function returns at line %s with a buffer that was not set to "
                                         "NULL: the caller is documented to get NULL on failure and leaks (or uses) the partial buffer" % (text, re_.get("line")),
                 e["line"], witness={"path": guards.path_lines(f, list(path))})
    else:
        rule.ok(f, "buffer-on-failure", "on a failed encoding the returned buffer is NULL", e["line"])


def r07_4(prog, rule):
    from .c15 import must_pass
    r07_4_errno(prog, rule)
    r07_4_newbuf(prog, rule)
    for name, grows in (("overrun_encoder_cb", False), ("dynamic_encoder_cb", True)):
        f = prog.require(name)
        tests = _overflow_tests(f)
        if not tests:
            rule.bad(f, "bound-test", "no comparison of computed_size + size with buffer_size: the copy into the caller's buffer is unbounded", f.line)
            continue
        copies = [(b, i, e) for b, i, e in f.calls() if e.get("callee") in ("memcpy", "memmove") and
                  any(_is_field(n, "buffer") for n in walk(e["args"][0]["tree"]))]
        if not copies:
            raise AnalysisBroken("%s: no memcpy into the buffer found" % name)
        dom = f.dominators()
        for cb_, ci, ce in copies:
            tb = [t for t, _ in tests if t.id in dom.get(cb_.id, ())]
            if not tb:
                rule.bad(f, "memcpy:dominated", "memcpy into the buffer is reachable without passing the size comparison", ce["line"])
                continue
            rule.ok(f, "memcpy:dominated", "every path to the copy passes the comparison of computed_size + size with buffer_size", ce["line"])
            for t, oi in tests:
                start = t.succ[oi]
                if start is None:
                    continue
                def grows_buffer(e):
                    return e["k"] == "assign" and e.get("field") == "buffer_size" and e.get("op") == "=" and const_of(e["rhs"]["tree"]) != 0
                if grows:
                    ok = must_pass(f, start, cb_.id, ci, grows_buffer)
                    msg_ok = "on the overflow edge the copy is reached only after buffer_size was raised to the reallocated size"
                else:
                    ok = cb_.id not in f.reachable_from([start])
                    msg_ok = "the copy is unreachable from the overflow edge"
                if ok:
                    rule.ok(f, "memcpy:overflow-edge", msg_ok, ce["line"])
                else:
                    rule.bad(f, "memcpy:overflow-edge", "the copy into the buffer is reachable on the edge where computed_size + size exceeds buffer_size", ce["line"])
        if grows:
            # asn_encode_to_new_buffer stores the terminator at buffer[computed_size]: after every callback
            # computed_size must be strictly below buffer_size, so the no-grow edge must mean sum < buffer_size
            for t, oi in tests:
                tt = strip_casts(t.term["cond"]["tree"])
                op = tt[1]
                l_is_sum = any(_is_field(n, "computed_size") for n in walk(tt[2]))
                strict_fit = (op == ">=" and l_is_sum) or (op == "<=" and not l_is_sum) or (op == "<" and l_is_sum and oi == 1) or (op == ">" and not l_is_sum and oi == 1)
                # oi is the overflow edge; the other edge is "fits": it must exclude equality
                if op in (">=",) and l_is_sum or op in ("<=",) and not l_is_sum:
                    rule.ok(f, "spare-byte", "the buffer is grown when computed_size + size reaches buffer_size: one byte always remains for the terminator", t.term["line"])
                else:
                    rule.bad(f, "spare-byte", "the buffer is grown only when computed_size + size exceeds buffer_size (`%s`): an output that exactly fills the "
                                            "buffer leaves no room for the terminator asn_encode_to_new_buffer stores at buffer[computed_size]" % tree_text(tt), t.term["line"])
        for b, i, e in f.returns():
            c = e.get("expr", {}).get("const")
            if c == 0:
                rule.ok(f, "returns-0", "returns 0 so the encoder keeps counting", e["line"], nontrivial=False)
            else:
                rule.bad(f, "returns-0", "returns `%s`: the full size is no longer counted for every buffer size" % e.get("expr", {}).get("text"), e["line"])
        # computed_size is advanced on every path to a return
        def adds_size(e):
            return e["k"] == "assign" and e.get("field") == "computed_size" and e.get("op") == "+="
        for b, i, e in f.returns():
            if must_pass(f, f.entry, b.id, i, adds_size):
                rule.ok(f, "counts-always", "computed_size += size on every path", e["line"])
            else:
                rule.bad(f, "counts-always", "a path returns without adding size to computed_size: reported size depends on the buffer size", e["line"])
    # failure catch + errno
    f = prog.require("callback_failure_catch_cb")
    sets = [(b, i, e) for b, i, e in f.events("assign") if e.get("field") == "callback_failed"]
    cbcalls = [(b, i, e) for b, i, e in f.calls() if "callee" not in e]
    if not sets or not cbcalls:
        raise AnalysisBroken("callback_failure_catch_cb: shape changed")
    cb_, ci, ce = cbcalls[0]
    subj = assume.subject_of_call(ce, None)
    hit = False
    if subj is not None:
        pred = subj.pred()
        flagged = {b.id for b, i, e in sets if const_of(e["rhs"]["tree"]) not in (0, None)}
        for v in (-1, -7):
            # prune branches contradicted by "callback returned v", then look for a return reached without the flag
            seen, st = set(), [cb_.id]
            while st:
                x = st.pop()
                if x in seen:
                    continue
                seen.add(x)
                blk = f.blocks[x]
                if x in flagged:
                    continue
                if any(e["k"] == "return" for e in blk.ev):
                    hit = True
                alive = [0, 1] if len(blk.succ) >= 2 else list(range(len(blk.succ)))
                if blk.term and "cond" in blk.term and len(blk.succ) >= 2:
                    val = assume.eval_under(blk.term["cond"]["tree"], pred, v)
                    if val is not None:
                        alive = [0] if val else [1]
                for idx in alive:
                    if idx < len(blk.succ) and blk.succ[idx] is not None:
                        st.append(blk.succ[idx])
    if hit or subj is None:
        rule.bad(f, "flag-on-failure", "a negative callback result can return without setting callback_failed", ce["line"])
    else:
        rule.ok(f, "flag-on-failure", "callback_failed is set on every path on which the application's callback returned < 0", ce["line"])
    f = prog.require("asn_encode")
    tested = False
    for b in f.blocks.values():
        if b.term and "cond" in b.term and _is_field(b.term["cond"]["tree"], "callback_failed"):
            tested = True
            start = b.succ[0]
            def sets_eio(e):
                return e["k"] == "assign" and "__errno_location" in e.get("lhs", "") and const_of(e["rhs"]["tree"]) == 5
            for rb, ri, re in f.returns():
                if rb.id in f.reachable_from([start]):
                    if must_pass(f, start, rb.id, ri, sets_eio):
                        rule.ok(f, "errno-EIO", "errno = EIO on every path from a failed callback to the return", re["line"])
                    else:
                        rule.bad(f, "errno-EIO", "a failed output callback can return without errno = EIO", re["line"])
    if not tested:
        rule.bad(f, "errno-EIO", "asn_encode never tests callback_failed: a failing callback is not turned into EIO", f.line)
