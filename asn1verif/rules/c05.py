"""C05 chunked (restartable) decoding — R05.1 stateless decoders report nothing consumed on WMORE, R05.2 reported
consumption and saved state move together, R05.3 "0 = want more" maps to WMORE."""
import collections
import re

from ..engine import Rule, load_tables
from ..extract import AnalysisBroken
from ..model import walk, strip_casts, is_var, const_of, tree_text, tree_vars
from ..retabs import dec_returns
from .. import guards, assume
from . import common

EXPLANATION = (
    "Scope: every asn_dec_rval_t function reachable from a ber/oer/xer decoder slot (PER is documented non-restartable). "
    "Returns are abstracted by a forward dataflow over the last assignments to the returned object's code/consumed "
    "fields (correlated pairs). R05.1: a decoder that never writes its asn_struct_ctx_t (and passes none on) cannot "
    "resume, so each of its WMORE returns must report consumed == 0. R05.2a: after the input cursor is advanced over "
    "header bytes (amount derived only from oer/ber fetch routines or literals, not from a child decoder's consumed and "
    "not from a self-delimiting skip), no WMORE return that reports the accumulated count may be reachable without a "
    "write to the decoder context in between (bytes reported => state saved). R05.2b: a WMORE return reporting the "
    "literal 0 must not be reachable, within one invocation, after the context was written and the cursor advanced "
    "(state saved => bytes reported). R05.3: on the edge where a length/tag fetch returned 0 (want more), the first "
    "return reached is WMORE, or FAIL only under the closed-frame idiom (size limited by the enclosing TLV).")
NOT_DECIDED = "that the saved state is sufficient (bisimulation of resumed and uninterrupted runs); XER token-level restart"
ASSUMPTIONS = ["uper decoders are outside the property (documented as non-restartable)"]

RESTART_SLOTS = ["ber_decoder", "oer_decoder", "xer_decoder"]


def scope_decoders(prog):
    cg = prog.callgraph()
    roots = common.slot_functions(prog, RESTART_SLOTS)
    sc = cg.reachable(roots)
    return [prog.funcs[k] for k in sorted(sc) if "asn_dec_rval" in prog.funcs[k].ret_type]


def is_ctx_write(e):
    return e["k"] == "assign" and e.get("deref") and "asn_struct_ctx" in e.get("pointee", "")


def is_stateful(f):
    for b, i, e in f.events():
        if is_ctx_write(e):
            return True
        if e["k"] == "call":
            for a in e["args"]:
                if ("asn_struct_ctx_t *" in a.get("type", "") or "struct asn_struct_ctx_s *" in a.get("type", "")) and a.get("const") != 0:
                    return True
    return False


def accumulators(f):
    acc = set()
    for b, i, e in f.events("assign"):
        if e.get("field") == "consumed" and e.get("op") == "=":
            t = strip_casts(e["rhs"]["tree"])
            if is_var(t) and t[2] == "local":
                acc.add(t[1])
    return acc


def var_sources(f):
    """var id -> set of source tags: call:<name>, child (from a .consumed member), const, param, other"""
    defs = collections.defaultdict(list)
    for b, i, e in f.events():
        if e["k"] == "decl" and "init" in e:
            defs[e["id"]].append(e["init"]["tree"])
        elif e["k"] == "assign" and e.get("base_id") and not e.get("deref") and e.get("lhs") == e.get("base") and "rhs" in e:
            defs[e["base_id"]].append(e["rhs"]["tree"])
        elif e["k"] == "call":
            # out-parameters: &var passed to a call
            for a in e["args"]:
                t = strip_casts(a.get("tree"))
                if isinstance(t, list) and t and t[0] == "un" and t[1] == "&" and is_var(t[2]):
                    defs[strip_casts(t[2])[1]].append(["call", e.get("id", -1), e.get("callee") or "?", []])
    memo = {}

    def src(tree, depth=0):
        out = set()
        for n in walk(tree):
            if n[0] == "call":
                out.add("call:" + n[2])
            elif n[0] == "icall":
                out.add("call:?")
            elif n[0] == "member" and n[2] == "consumed":
                out.add("child")
            elif n[0] == "int":
                out.add("const")
            elif n[0] == "var":
                if n[2] == "param":
                    out.add("param")
                if depth < 3:
                    if n[1] not in memo:
                        memo[n[1]] = set()
                        s = set()
                        for d in defs.get(n[1], []):
                            s |= src(d, depth + 1)
                        memo[n[1]] = s
                    out |= memo[n[1]]
        return out
    return src


def run_rules(prog, tab):
    r1 = Rule("R05.1", "a decoder that keeps no context reports consumed == 0 with every WMORE", floor=15)
    r2a = Rule("R05.2a", "header bytes are not reported as consumed with WMORE unless the decoder context was updated after them", floor=10)
    r2b = Rule("R05.2b", "once the context was updated and input consumed, WMORE reports the consumed count, not 0", floor=3)
    decs = scope_decoders(prog)
    headers = set(tab["header_fetchers"])
    skips = set(tab["skip_sources"])
    exc = {(x["rule"], x["function"], x["key"]): x["reason"] for x in tab.get("exceptions", [])}
    for f in decs:
        rets = dec_returns(f)
        st = is_stateful(f)
        if not st:
            n = 0
            for b, i, e, pairs in rets:
                for code, cons in sorted(pairs):
                    if code == "WMORE" or code.startswith("expr:"):
                        n += 1
                        key = "return:%s:%s" % (code, cons)
                        if cons == "0":
                            r1.ok(f, key, "stateless decoder, WMORE with nothing consumed", e["line"])
                        elif code.startswith("expr:"):
                            r1.ok(f, key, "code copied from an expression (not a literal WMORE)", e["line"], nontrivial=False)
                        else:
                            r1.bad(f, key, "this decoder saves no context, yet returns WMORE with consumed = `%s`: the caller drops "
                                           "those bytes and the next call starts from scratch in the middle of the value" % cons, e["line"])
            if n == 0:
                r1.ok(f, "no-WMORE", "stateless decoder without a WMORE return of its own", f.line, nontrivial=False)
            continue
        acc = accumulators(f)
        if not acc:
            r2a.ok(f, "no-accumulator", "stateful decoder without a local consumed accumulator", f.line, nontrivial=False)
            continue
        res = _walk_stateful(f, acc, headers, skips)
        for (rule_id, key), (line, detail, wit) in sorted(res["bad"].items()):
            rule = r2a if rule_id == "R05.2a" else r2b
            ek = (rule_id, f.name, key)
            if ek in exc:
                rule.exc(f, key, exc[ek], line)
            else:
                rule.bad(f, key, detail, line, witness=wit)
        for (rule_id, key), line in sorted(res["ok"].items()):
            if (rule_id, key) in res["bad"]:
                continue
            rule = r2a if rule_id == "R05.2a" else r2b
            rule.ok(f, key, "holds on every path (path-sensitive walk, %d states)" % res["states"], line)
    # R05.1 for a WMORE that is passed on from a callee: assuming the callee's result carries RC_WMORE, a stateless
    # decoder may return that result only with its consumed count untouched (the callee's own business) or set to 0
    from .. import assume
    for f in decs:
        if is_stateful(f):
            continue
        for b, i, e in f.calls():
            if "asn_dec_rval" not in e.get("ret_type", "") or e.get("use") not in ("assigned", "init"):
                continue
            subj = assume.subject_of_call(e, "code")
            if subj is None or subj.var is None:
                continue
            var = subj.var

            def classify(rb, ri, re_, env=None, var=var):
                env = env or {}
                ex = re_.get("expr")
                t = strip_casts(ex["tree"]) if ex else None
                if not is_var(t):
                    return "fail"       # literal-code returns are R05.1's own instances
                v = env.get((t[1], "consumed"))
                cd = env.get((t[1], "code"))
                if isinstance(cd, int) and cd != 1:
                    return "fail"       # the code was replaced by a constant other than WMORE
                if t[1] != var and v is None:
                    return "fail"
                if v == 0:
                    return "fail"
                if v is None:
                    return "unknown:untouched"
                return "success"
            hits = assume.explore(f, b, i, subj, 1, classify, origin_callid=e.get("id"), from_entry=False, subject_return_ok=False)
            # `consumed` left as the callee reported it is fine when the callee's partial work survives (it keeps its own
            # context inside the structure); it is not when this function throws the partial value away on the way out
            def discards(path, b=b):
                # some way from the call to this return releases something (the reported path is only one of them)
                fwd = f.reachable_from([b.id])
                bwd = f.reachable_from([path[-1]], forward=False)
                for bid in fwd & bwd:
                    for y in f.blocks[bid].ev:
                        if y["k"] == "call" and (y.get("slot") == "free_struct" or y.get("callee") in ("free",)):
                            return True
                return False
            # a directly called stateless decoder reports 0 with its own WMORE (that is R05.1 for the callee): handing that on
            # untouched is fine even when the temporary is released
            cal = prog.resolve_direct(e["callee"], f) if "callee" in e else None
            callee_reports_zero = cal is not None and not is_stateful(cal)
            hits = [h for h in hits if h[0] == "success" or (h[0] == "unknown:untouched" and not callee_reports_zero and discards(h[4]))]
            key = "passes-on:%s" % (e.get("callee") or ("->" + e["slot"] if e.get("slot") else "indirect"))
            if hits:
                kind, rb, ri, re_, path, lost = hits[0]
                r1.bad(f, key, "assuming this call answered RC_WMORE, the result is returned at line %s with a consumed count that is not 0 "
                               "(replaced by a non-zero expression, or left as the callee set it while the partial value is released) although this decoder keeps no context: the caller skips bytes of a value that will be "
                               "decoded from its start again" % re_.get("line"), e["line"], witness={"path": guards.path_lines(f, list(path))})
            else:
                r1.ok(f, key, "a WMORE of the callee is passed on with consumed untouched or 0", e["line"])
    return [r1, r2a, r2b]


def _phase_label(f, b):
    """nearest enclosing case label of the restart switch (for stable instance keys)"""
    dom = f.dominators()
    best = None
    for d in dom.get(b.id, ()):
        lab = f.blocks[d].label
        if lab and lab.get("kind") == "case":
            if best is None or d < best[0]:
                best = (d, lab.get("value"))
    return "case%s" % best[1] if best else "top"


def ctx_derived_vars(f):
    """locals that point into the object parked in ctx->ptr (stck = ctx->ptr; sel = stck->cur_ptr; sel = helper(stck))"""
    der = set()
    changed = True
    while changed:
        changed = False
        for b, i, e in f.events():
            tree, vid = None, None
            if e["k"] == "decl" and "init" in e:
                tree, vid = e["init"]["tree"], e["id"]
            elif e["k"] == "assign" and e.get("base_kind") == "local" and not e.get("deref") and e.get("lhs") == e.get("base") and "rhs" in e:
                tree, vid = e["rhs"]["tree"], e["base_id"]
            if tree is None or vid in der:
                continue
            hit = any((n[0] == "member" and n[2] == "ptr" and "asn_struct_ctx" in str(n[4])) or (n[0] == "var" and n[1] in der) for n in walk(tree))
            if hit and "*" in (e.get("type") or e.get("base_type") or ""):
                der.add(vid)
                changed = True
    return der


def _walk_stateful(f, acc, headers, skips):
    """One path-sensitive walk of a stateful decoder.  Per path it tracks: whether a header advance happened with no
    context update since (pending), whether the context was updated, whether the cursor advanced, and the last values
    assigned to the returned object's code/consumed.  Branches on pointer parameters are correlated (opt_ctx)."""
    from ..retabs import RC
    params = {p["id"] for p in f.params}
    src = var_sources(f)
    der = ctx_derived_vars(f)
    accnames = {a.split("@")[0] for a in acc}

    def classify_adv(e):
        srcs = src(e["rhs"]["tree"])
        calls = {s_[5:] for s_ in srcs if s_.startswith("call:")}
        if "child" in srcs:
            return "child"
        if calls & skips:
            return "skip"
        if calls and calls <= headers:
            return "header"
        if not calls and "const" in srcs and not (srcs - {"const"}):
            return "header"
        return "other"

    def state_write(x):
        if is_ctx_write(x):
            # ctx->left is a byte/element budget (BER's ADVANCE decrements it on every advance); what tells the
            # resumed call where it is are phase, step, context and the object parked in ptr
            if x.get("field") == "left" and x.get("op") not in ("++", "--", "++post", "--post"):
                # ctx->left is a byte/element budget: `-= num` inside ADVANCE and `= length` after a fetch do not tell
                # the resumed call where it is; stepping it by one (the end-of-contents counter) does
                return False
            return True
        if x["k"] == "assign" and x.get("deref") and x.get("base_id") in der:
            return True
        if x["k"] == "call":
            for a in x.get("args", []):
                t = strip_casts(a.get("tree"))
                if is_var(t) and t[1] in der and "const" not in a.get("type", "").split("*")[0]:
                    return True
        return False
    bad, ok = {}, {}
    seen = set()
    # state: block, pos, pending(line or None), wline, aline, env(frozenset of ((var,field),val)), facts, path
    dq = collections.deque([(f.entry, 0, (None, None), None, None, frozenset(), (), (f.entry,))])
    n = 0
    while dq:
        bid, pos, pend, wline, aline, env, facts, path = dq.popleft()
        n += 1
        if n > 150000:
            bad[("R05.2a", "state-limit")] = (f.line, "path exploration limit reached (not decided)", None)
            break
        blk = f.blocks[bid]
        stop = False
        for j in range(pos, len(blk.ev)):
            x = blk.ev[j]
            k = x["k"]
            if k == "return":
                ex = x.get("expr")
                t = strip_casts(ex["tree"]) if ex else None
                code = cons = None
                if is_var(t):
                    envd = dict(env)
                    code, cons = envd.get((t[1], "code")), envd.get((t[1], "consumed"))
                lab = _phase_label(f, blk)
                if code == "WMORE":
                    ka = ("R05.2a", "WMORE:%s@%s" % ("acc" if cons == "acc" else cons, lab))
                    kb = ("R05.2b", "WMORE0@%s" % lab)
                    if cons == "acc":
                        ok.setdefault(ka, x["line"])
                        if pend[1] is not None and ka not in bad:
                            bad[ka] = (x["line"], "the cursor was advanced (line %s) over header bytes fetched at line %s and this WMORE return reports them as "
                                       "consumed, with no update of the decoder context since the fetch: the resumed call expects the header again" % (pend[1], pend[0]),
                                       {"fetch_line": pend[0], "advance_line": pend[1], "path": guards.path_lines(f, list(path))})
                    elif cons == "0":
                        ok.setdefault(kb, x["line"])
                        if wline is not None and aline is not None and kb not in bad:
                            bad[kb] = (x["line"], "this return reports WMORE with consumed 0 although on this path the context was already updated "
                                       "(line %s) and input consumed (line %s): the caller re-presents bytes the saved state no longer expects" % (wline, aline),
                                       {"ctx_write_line": wline, "advance_line": aline, "path": guards.path_lines(f, list(path))})
                stop = True
                break
            if k == "call" and x.get("callee") in headers:
                pend = (x.get("line"), pend[1])      # a new fetch does not settle an earlier unsaved advance
            if state_write(x):
                pend = (None, None)
                if x["k"] == "assign" and x.get("field") in ("phase", "step", "context", "ptr", "left") or x["k"] == "call" or x.get("base_id") in der:
                    wline = wline or x.get("line")
            if k == "assign" and x.get("base_id") in acc and x.get("op") == "+=" and not x.get("deref"):
                aline = aline or x.get("line")
                if classify_adv(x) == "header" and pend[0] is not None:
                    pend = (pend[0], x.get("line"))
            if k == "assign" and x.get("base_id") and not x.get("deref") and "asn_dec_rval" in x.get("base_type", "") and x.get("op") == "=":
                envd = dict(env)
                if x.get("field") == "code":
                    c = const_of(x["rhs"]["tree"])
                    envd[(x["base_id"], "code")] = RC.get(c, "expr") if c is not None else "expr"
                elif x.get("field") == "consumed":
                    c = const_of(x["rhs"]["tree"])
                    r = strip_casts(x["rhs"]["tree"])
                    envd[(x["base_id"], "consumed")] = "0" if c == 0 else ("acc" if is_var(r) and r[1] in acc else "expr")
                elif x.get("lhs") == x.get("base"):
                    envd[(x["base_id"], "code")] = "child"
                    envd[(x["base_id"], "consumed")] = "child"
                env = frozenset(envd.items())
            facts = assume._kill(facts, x)
        if stop:
            continue
        alive = [idx for idx, s_ in enumerate(blk.succ) if s_ is not None]
        newfacts = {}
        if blk.term and "cond" in blk.term and len(blk.succ) >= 2 and blk.term["kind"] != "SwitchStmt":
            tree = blk.term["cond"]["tree"]
            vs = tree_vars(tree)
            if vs and vs <= params:
                d = assume.fact_query(facts, tree)
                if d is not None:
                    alive = [0] if d else [1]
                for idx, truth in ((0, True), (1, False)):
                    if idx in alive:
                        fo = assume._fact_of(tree, truth)
                        if fo is not None:
                            newfacts[idx] = fo
        for idx in alive:
            s_ = blk.succ[idx]
            nf = facts
            if idx in newfacts:
                nf = tuple([y for y in facts if y != newfacts[idx]] + [newfacts[idx]])[-6:]
            key = (s_, pend[0] is not None, pend[1] is not None, wline is not None, aline is not None, env, nf)
            if key in seen:
                continue
            seen.add(key)
            dq.append((s_, 0, pend, wline, aline, env, nf, path + (s_,) if len(path) < 120 else path))
    return {"bad": bad, "ok": ok, "states": n}


def r05_3(prog, tab):
    """On the edge where a fetch routine answered 0 (want more), the first return reached is WMORE (or the child's own
    result), or FAIL only on a path that tested the enclosing frame's remaining length (closed-frame idiom)."""
    r = Rule("R05.3", "a fetch routine's `0 = need more data` answer turns into RC_WMORE, never RC_OK and never RC_FAIL "
                      "(except inside a frame whose length says no more data can come)", floor=25)
    fetchers = set(tab["want_more_zero"])
    exc = {(x["rule"], x["function"], x["key"]): x["reason"] for x in tab.get("exceptions", [])}
    for f in scope_decoders(prog):
        accept_scalar = "asn_dec_rval" not in f.ret_type
        for b, i, e in f.calls():
            cal = e.get("callee")
            if cal not in fetchers:
                continue
            subj = assume.subject_of_call(e, None)
            key = cal
            if subj is None:
                r.bad(f, key, "result of %s is not held anywhere (%s): `need more data` cannot be told from success" % (cal, e.get("use")), e["line"])
                continue

            def classify(rb, ri, re, env=None):
                env = env or {}
                ex = re.get("expr")
                t = strip_casts(ex["tree"]) if ex else None
                if is_var(t):
                    c = env.get((t[1], "code"))
                    if c == 1:
                        return "fail"          # acceptable: WMORE
                    if c == 2:
                        return "unknown:FAIL"
                    if c == 0:
                        return "success"       # RC_OK on a short buffer
                    v = env.get((t[1], None))
                    if isinstance(v, str) and v.startswith("call:"):
                        return "fail"          # a child decoder's own verdict
                    return "unknown:?"
                if isinstance(t, list) and t and t[0] in ("call", "icall"):
                    return "fail"
                return "unknown:?"
            hits = assume.explore(f, b, i, subj, 0, classify, origin_callid=e.get("id"), from_entry=False)
            bad = None
            for kind, rb, ri, re, path, lost in hits:
                if kind == "abort":
                    continue
                if kind == "unknown:FAIL":
                    # closed-frame idiom: some branch on the path looked at ctx->left / a frame length
                    framed = False
                    for bid in path:
                        t = f.blocks[bid].term
                        if t and "cond" in t:
                            tr = t["cond"].get("full_tree") or t["cond"]["tree"]
                            if any(n[0] == "member" and n[2] == "left" for n in walk(tr)):
                                framed = True
                    if framed:
                        continue
                if kind == "unknown:?" and lost:
                    continue
                bad = (kind, re, path)
                break
            ek = ("R05.3", f.name, key)
            if bad is None:
                r.ok(f, key, "on the want-more edge every return is RC_WMORE (or FAIL inside a closed frame)", e["line"])
            elif ek in exc:
                r.exc(f, key, exc[ek], e["line"])
            else:
                kind, re, path = bad
                what = {"success": "RC_OK", "unknown:FAIL": "RC_FAIL"}.get(kind, "an unclassified code")
                r.bad(f, key, "when %s answers 0 (need more data) control reaches the return at line %s with %s: a proper prefix of a "
                              "valid encoding is not answered with RC_WMORE" % (cal, re["line"], what), e["line"],
                      witness={"return_line": re["line"], "path": guards.path_lines(f, list(path))})
    # XER: the tokenizer reports "need more" through the chunk type PXER_WMORE
    en = prog.enums.get("pxer_chunk_type_e") or prog.enums.get("pxer_chunk_type")
    if en:
        wm = {n: v for n, v in en["enumerators"]}.get("PXER_WMORE")
        for f in scope_decoders(prog):
            retmap = None
            for b in f.blocks.values():
                if not (b.term and b.term["kind"] == "SwitchStmt" and "pxer_chunk_type" in b.term.get("enum", "")):
                    continue
                if retmap is None:
                    retmap = {(rb.id, ri): pairs for rb, ri, re, pairs in dec_returns(f)}
                tgt = None
                for sidx in b.succs():
                    lab = f.blocks[sidx].label or {}
                    if lab.get("kind") == "case" and lab.get("value") == wm:
                        tgt = sidx
                if tgt is None:
                    r.bad(f, "case:PXER_WMORE", "switch on the XER chunk type has no case for PXER_WMORE", b.term["line"])
                    continue
                codes = set()
                for rbid in f.reachable_from([tgt], stop=lambda x: any(e["k"] == "return" for e in f.blocks[x].ev)):
                    for j, e in enumerate(f.blocks[rbid].ev):
                        if e["k"] == "return":
                            codes |= {c for c, _k in retmap.get((rbid, j), ())}
                if codes == {"WMORE"}:
                    r.ok(f, "case:PXER_WMORE", "PXER_WMORE leads to RC_WMORE", b.term["line"])
                else:
                    r.bad(f, "case:PXER_WMORE", "chunk type PXER_WMORE (need more data) leads to %s" % sorted(codes), b.term["line"])
    return r


def r05_4(prog, tab):
    """When a member decoder answers WMORE the element is not finished: on the way to the return the parent must not
    step its element/step/phase counters (the resumed call would skip or lose the unfinished element)."""
    r = Rule("R05.4", "a parent decoder does not step its element, step or phase counters on the path where a member decoder asked for more data", floor=8)
    for f in scope_decoders(prog):
        if not is_stateful(f):
            continue
        for b, i, e in f.calls():
            if not (e.get("slot") in RESTART_SLOTS and "asn_TYPE_operation" in e.get("slot_struct", "")):
                continue
            if "asn_dec_rval" not in e.get("ret_type", ""):
                continue
            subj = assume.subject_of_call(e, "code")
            key = "->%s@%s" % (e["slot"], _phase_label(f, b))
            if subj is None or subj.kind == "call":
                r.ok(f, key, "member result returned/inspected in place", e["line"], nontrivial=False)
                continue
            hits = assume.explore(f, b, i, subj, 1, lambda b_, i_, e_, env=None: "success", origin_callid=e.get("id"), from_entry=False, subject_return_ok=False)
            bad = None
            for kind, rb, ri, re, path, lost in hits:
                if kind == "abort":
                    continue
                for n_, bid in enumerate(path):
                    evs = f.blocks[bid].ev
                    if n_ == 0:
                        evs = evs[i + 1:]
                    for x in evs:
                        if is_ctx_write(x):
                            stepping = x.get("op") in ("++", "--", "++post", "--post") or \
                                (x.get("field") in ("step", "phase") and not (x.get("op") == "=" and False))
                            if stepping and x.get("field") in ("left", "step", "phase"):
                                bad = (x, re, path)
                                break
                    if bad:
                        break
                if bad:
                    break
            if bad is None:
                r.ok(f, key, "assuming the member decoder answered RC_WMORE, no element/step/phase counter is stepped before returning", e["line"])
            else:
                x, re, path = bad
                r.bad(f, key, "assuming the member decoder answered RC_WMORE, `%s %s` at line %s steps the parent's position before the return "
                              "at line %s: the unfinished element is skipped or lost when decoding resumes" % (x.get("lhs"), x.get("op"), x.get("line"), re.get("line")),
                      e["line"], witness={"path": guards.path_lines(f, list(path))})
    return r


def _reads_var(tree, v):
    """does the tree read variable v other than by taking its address?"""
    if not isinstance(tree, list) or not tree:
        return False
    if tree[0] == "un" and tree[1] == "&" and is_var(tree[2], v):
        return False
    if tree[0] == "var":
        return tree[1] == v
    for c in tree[1:]:
        if isinstance(c, list):
            if c and isinstance(c[0], str):
                if _reads_var(c, v):
                    return True
            else:
                for cc in c:
                    if _reads_var(cc, v):
                        return True
    return False


def r05_5(prog, tab):
    """A length that was fetched is used.  For every call of a header fetcher that writes a length through an
    out-parameter (`&len` of a local): the local is read somewhere after the call (in an expression other than
    another fetch's out-argument).  A length that is fetched and ignored means the value octets it announces are not
    accounted for: the decoder reports success on a prefix and takes contents octets for the next header."""
    r = Rule("R05.5", "a length written by a header fetcher through an out-parameter is read afterwards", floor=8)
    fetchers = {"ber_fetch_length", "oer_fetch_length", "oer_fetch_quantity"}      # their out-parameter is a length / count
    for f in sorted(prog.funcs.values(), key=lambda f: f.key):
        n = 0
        for b, i, e in f.calls():
            if e.get("callee") not in fetchers:
                continue
            outs = []
            for a in e.get("args", []):
                t = strip_casts(a.get("tree"))
                if isinstance(t, list) and t and t[0] == "un" and t[1] == "&" and is_var(t[2]) and strip_casts(t[2])[2] == "local":
                    outs.append(strip_casts(t[2])[1])
            for v in outs:
                n += 1
                key = "%s(&%s)#%d" % (e["callee"], v.split("@")[0], n)
                reach = f.reachable_from([b.id])
                read = False
                for bid in reach:
                    blk = f.blocks[bid]
                    for j, y in enumerate(blk.ev):
                        if bid == b.id and j <= i:
                            continue
                        trees = []
                        if y["k"] == "call":
                            for a in y.get("args", []):
                                t = strip_casts(a.get("tree"))
                                if isinstance(t, list) and t and t[0] == "un" and t[1] == "&" and is_var(t[2], v):
                                    continue
                                trees.append(a.get("tree"))
                        else:
                            for fld in ("rhs", "init", "expr"):
                                if fld in y:
                                    trees.append(y[fld]["tree"])
                            if y["k"] in ("subscript",) and "index" in y:
                                trees.append(y["index"]["tree"])
                        if any(_reads_var(t, v) for t in trees):
                            read = True
                    if blk.term and "cond" in blk.term:
                        if _reads_var(blk.term["cond"].get("full_tree") or blk.term["cond"]["tree"], v):
                            read = True
                if read:
                    r.ok(f, key, "the fetched value is read after the call", e["line"])
                else:
                    r.bad(f, key, "`%s` receives the length from %s and is never read: the octets it announces are neither checked against the "
                                  "input nor skipped" % (v.split("@")[0], e["callee"]), e["line"])
    return r


def r05_6(prog, tab):
    """A bit stream object is consumed through its getters only.  asn_get_few_bits() normalises the object as it goes
    (`buffer += nboff >> 3`), so what `->buffer[0]` denotes depends on how many bits were read before.  Outside
    asn_bit_data.c / per_support.c / per_opentype.c (the module and its PER refill hooks) no code may read *through* the
    buffer field of an asn_bit_data_t; setting fields and testing the pointer itself is not reading the stream."""
    r = Rule("R05.6", "outside the bit-stream module the octets of an asn_bit_data_t are read only through the bit getters", floor=2)
    owners = ("asn_bit_data.c", "per_support.c", "per_opentype.c", "per_decoder.c", "per_encoder.c")
    for f in sorted(prog.funcs.values(), key=lambda f: f.key):
        if f.relfile.endswith(owners):
            continue
        n = 0
        for b, line, tree in f.all_trees():
            for nd in walk(tree):
                if not (isinstance(nd, list) and nd and nd[0] in ("sub", "un")):
                    continue
                inner = nd[1] if nd[0] == "sub" else (nd[2] if nd[1] == "*" else None)
                if inner is None:
                    continue
                it = strip_casts(inner)
                if isinstance(it, list) and it and it[0] == "member" and it[2] == "buffer" and "asn_bit_data" in str(it[4]):
                    n += 1
                    r.bad(f, "reads %s#%d" % (tree_text(it), n), "`%s` is read directly: after asn_get_few_bits() has consumed eight or more bits the "
                          "buffer pointer has moved, and this is no longer the octet it was meant to be" % tree_text(nd), line)
        for b, i, e in f.events("assign"):
            lt = strip_casts(e.get("lhs_tree"))
            if isinstance(lt, list) and lt and lt[0] == "member" and "asn_bit_data" in str(lt[4]):
                r.ok(f, "sets %s@%s" % (tree_text(lt), e["line"]), "field assignment (no read of the stream)", e["line"], nontrivial=False)
    return r


def r05_7(prog, tab=None, rid="R05.7", only=None, floor=12):
    """A constructed BER decoder keeps a byte budget (`ctx->left`, set from the outer length and decremented with every
    ADVANCE).  What it hands to a sub-decoder or a header fetcher must stay inside that budget: in a function that
    decrements `<ctx>->left`, every call argument that mentions the function's own `size` parameter also mentions
    `<ctx>->left` (the LEFT idiom, min(size, ctx->left)), unless the call is given the context object itself (the tag
    checker that *establishes* the budget).  A raw `size` lets a member read past the end of its parent: a truncated
    parent is then answered with WMORE/OK instead of FAIL and `consumed` can run past the PDU."""
    r = Rule(rid, "in a decoder that keeps a `ctx->left` byte budget, sub-decoders and fetchers are given min(size, ctx->left), never the raw buffer size", floor=floor)
    for f in sorted(prog.funcs.values(), key=lambda f: f.key):
        holder = None
        for b, i, e in f.events("assign"):
            lt = strip_casts(e.get("lhs_tree"))
            if isinstance(lt, list) and lt and lt[0] == "member" and lt[2] == "left" and lt[3] and e.get("op") == "-=" and is_var(lt[1]) and "asn_struct_ctx" in str(lt[4]):
                holder = strip_casts(lt[1])[1]
        if holder is None:
            continue
        sizes = [p["id"] for p in f.params if p["name"] == "size"]
        if not sizes:
            continue
        sz = sizes[0]
        n = 0
        for b, i, e in f.calls():
            cal = e.get("callee") or ("slot:%s" % e.get("slot") if e.get("slot") else None)
            if cal is None:
                continue
            if only and not re.search(only, cal):
                continue
            args = [a.get("tree") for a in e.get("args", [])]
            if any(is_var(a, holder) for a in args):
                continue                      # the context itself goes along: that routine maintains the budget
            for ai, a in enumerate(args):
                if not _reads_var(a, sz):
                    continue
                n += 1
                key = "%s(arg%d)#%d" % (cal, ai, n)
                has_left = any(isinstance(nd, list) and nd and nd[0] == "member" and nd[2] == "left" and is_var(nd[1], holder) for nd in walk(a))
                if has_left:
                    r.ok(f, key, "the argument is bounded by %s->left" % holder.split("@")[0], e["line"])
                else:
                    r.bad(f, key, "`%s` is given `%s`, the size of the whole input buffer, where the other calls of this function give "
                                  "min(size, %s->left): the callee may read beyond the end of the enclosing value" % (cal, tree_text(a), holder.split("@")[0]), e["line"])
    return r


def _block_use_def(f, bid):
    """(use, def) of local/param variables for a block, use = read before any write in the block"""
    from .termination import _reads, _lhs_kind
    use, dfn = set(), set()

    def rd(tree):
        out = []
        _reads(tree, out)
        for v in out:
            if v not in dfn:
                use.add(v)
    b = f.blocks[bid]
    for e in b.ev:
        k = e["k"]
        if k == "assign":
            if "rhs" in e:
                rd(e["rhs"]["tree"])
            lt = strip_casts(e.get("lhs_tree"))
            if is_var(lt):
                if e.get("op") != "=" and lt[1] not in dfn:
                    use.add(lt[1])
                dfn.add(lt[1])
            elif lt is not None:
                rd(lt)
        elif k == "decl":
            if "init" in e:
                rd(e["init"]["tree"])
            dfn.add(e["id"])
        elif k == "call":
            for a in e.get("args", []):
                t = strip_casts(a.get("tree"))
                if isinstance(t, list) and t and t[0] == "un" and t[1] == "&" and is_var(t[2]):
                    dfn.add(strip_casts(t[2])[1])        # an out-parameter (the fetchers write, never read, it)
                else:
                    rd(a.get("tree"))
        elif k == "return" and e.get("expr"):
            rd(e["expr"]["tree"])
        elif k == "assert":
            rd(e["cond"]["tree"])
    if b.term and "cond" in b.term:
        rd(b.term["cond"].get("full_tree") or b.term["cond"]["tree"])
    return use, dfn


def r05_8(prog, tab):
    """What a restartable loop carries from one iteration to the next survives a restart.  In a decoder function that
    records its progress in the decoder context (it stores a local into an asn_struct_ctx_t field) and has a loop from
    inside which it can ask for more data: every local that an iteration reads from the previous one (live around the
    back edge, written in the loop) is a parameter (the caller re-presents the unconsumed input), is stored into the
    context or the returned result somewhere in the function, or is initialised from the context.  Anything else is
    re-initialised by the restart while the loop resumes in the middle: the resumed call decides on different state
    than the uninterrupted one."""
    r = Rule("R05.8", "in a loop that can be left with RC_WMORE and resumed from the saved step, every loop-carried local is saved in (or restored from) the context or the result", floor=10)
    exc = {(x["function"], x["key"]): x["reason"] for x in tab.get("r05_8_exceptions", [])}
    for f in scope_decoders(prog):
        ctx_saved = set()          # locals whose value is stored into a context or result field
        ctx_fields_stored = False
        for b, i, e in f.events("assign"):
            lt = strip_casts(e.get("lhs_tree"))
            if not (isinstance(lt, list) and lt and lt[0] == "member") or "rhs" not in e:
                continue
            into_ctx = "asn_struct_ctx" in str(lt[4])
            into_rval = "asn_dec_rval" in str(lt[4])
            if not (into_ctx or into_rval):
                continue
            if into_ctx:
                ctx_fields_stored = True
            for n in walk(e["rhs"]["tree"]):
                if n[0] == "var":
                    ctx_saved.add(n[1])
        if not ctx_fields_stored:
            continue
        params = {p["id"] for p in f.params}
        # locals initialised (anywhere) from an expression that reads a context field or another such local
        from_ctx = set()
        changed = True
        while changed:
            changed = False
            for b, i, e in f.events():
                tr, vid = None, None
                if e["k"] == "decl" and "init" in e:
                    vid, tr = e["id"], e["init"]["tree"]
                elif e["k"] == "assign" and "rhs" in e and is_var(e.get("lhs_tree")) and e.get("op") == "=":
                    vid, tr = strip_casts(e["lhs_tree"])[1], e["rhs"]["tree"]
                if vid is None or vid in from_ctx:
                    continue
                if any((n[0] == "member" and "asn_struct_ctx" in str(n[4])) or (n[0] == "var" and n[1] in from_ctx) for n in walk(tr)):
                    from_ctx.add(vid)
                    changed = True
        rets = {(b.id, i): codes for b, i, e, codes in dec_returns(f)}
        ud = {bid: _block_use_def(f, bid) for bid in f.blocks}
        for h, body in f.loops():
            # the returns written inside the loop (their blocks leave the natural loop, so go by source position)
            lines = [e_["line"] for bid in body for e_ in f.blocks[bid].ev if e_.get("line")] + \
                    [f.blocks[bid].term["line"] for bid in body if f.blocks[bid].term and f.blocks[bid].term.get("line")]
            lo, hi = (min(lines), max(lines)) if lines else (0, -1)
            wmore = [k for k, codes in rets.items() if any(c[0] == "WMORE" for c in codes)
                     and lo <= (f.blocks[k[0]].ev[k[1]].get("line") or -1) <= hi]
            # ... and that resume: the return reports consumed input, or the context was written on the way to it.  (A
            # WMORE with consumed == 0 and an untouched context makes the next call start from scratch.)
            cw_blocks = {b_.id for b_, i_, e_ in f.events() if is_ctx_write(e_)}
            wmore = [k for k in wmore if any(c[0] == "WMORE" and c[1] != "0" for c in rets[k])
                     or any(k[0] in f.reachable_from([cb]) for cb in cw_blocks if cb != k[0])
                     or any(is_ctx_write(e_) for e_ in f.blocks[k[0]].ev[:k[1]])]
            if not wmore:
                # returns reached from the body without leaving the loop's blocks are in the body; RETURN() macros are
                continue
            # liveness inside the body only (what an iteration needs from the previous one)
            live_in = {bid: set() for bid in body}
            ch = True
            while ch:
                ch = False
                for bid in body:
                    out = set()
                    for s_ in f.blocks[bid].succs():
                        if s_ in body:
                            out |= live_in[s_]
                    use, dfn = ud[bid]
                    nv = use | (out - dfn)
                    if nv != live_in[bid]:
                        live_in[bid] = nv
                        ch = True
            written = set().union(*[ud[bid][1] for bid in body])
            carried = {v for v in (live_in[h] & written) if v.split("@")[0] != v or True}
            line = (f.blocks[h].term or {}).get("line")
            for v in sorted(carried):
                nm = v.split("@")[0]
                key = "carried:%s@loop%s" % (nm, line)
                if v in params:
                    r.ok(f, key, "a parameter: the caller re-presents the unconsumed input", line, nontrivial=False)
                elif v in ctx_saved:
                    r.ok(f, key, "stored into the context or the returned result", line)
                elif v in from_ctx:
                    r.ok(f, key, "initialised from the context", line)
                elif (f.name, key) in exc:
                    r.exc(f, key, exc[(f.name, key)], line)
                else:
                    r.bad(f, key, "`%s` is carried from one iteration of this loop to the next, the loop can be left with RC_WMORE and resumed from "
                                  "the step saved in the context, and `%s` is neither saved nor restored: the resumed call starts with its initial "
                                  "value in the middle of the loop" % (nm, nm), line)
    return r


def r05_9(prog, tab):
    """Bits taken from a parked bit stream are given back, or accounted for, before asking for more data.  Where a
    restartable decoder reads presence bits with asn_get_few_bits() from a bit-stream object that lives in the decoder
    context (a local loaded from `ctx->ptr`) and can then return RC_WMORE, every path from the read to that return passes
    asn_get_undo() on the same object or a store into the context (the microphase / step that makes the resumed call
    skip the read).  Otherwise the resumed call reads the *next* bit for the same member."""
    from .c15 import must_pass
    r = Rule("R05.9", "a bit read from a bit stream parked in the decoder context is undone or recorded in the context before RC_WMORE", floor=3)
    for f in scope_decoders(prog):
        parked = set()
        for b, i, e in f.events():
            tr, vid = None, None
            if e["k"] == "decl" and "init" in e:
                vid, tr = e["id"], e["init"]["tree"]
            elif e["k"] == "assign" and "rhs" in e and is_var(e.get("lhs_tree")) and e.get("op") == "=":
                vid, tr = strip_casts(e["lhs_tree"])[1], e["rhs"]["tree"]
            if vid and tr is not None:
                t = strip_casts(tr)
                if isinstance(t, list) and t and t[0] == "member" and t[2] == "ptr" and "asn_struct_ctx" in str(t[4]):
                    parked.add(vid)
        if not parked:
            continue
        rets = [(b, i, e) for b, i, e, codes in dec_returns(f) if any(c[0] == "WMORE" for c in codes)]
        n = 0
        for b, i, e in f.calls():
            if e.get("callee") != "asn_get_few_bits" or not e.get("args"):
                continue
            x = strip_casts(e["args"][0]["tree"])
            if not (is_var(x) and x[1] in parked):
                continue
            n += 1
            key = "asn_get_few_bits(%s)#%d" % (x[1].split("@")[0], n)

            def settles(y, xid=x[1]):
                if is_ctx_write(y):
                    return True
                return y["k"] == "call" and y.get("callee") == "asn_get_undo" and y.get("args") and is_var(y["args"][0]["tree"], xid)
            bad = None
            for rb, ri, re_ in rets:
                if rb.id != b.id and rb.id not in f.reachable_from(b.succs()):
                    continue
                if any(settles(y) for y in b.ev[i + 1:]):
                    continue
                if rb.id == b.id and ri > i:
                    continue
                if not all(must_pass(f, s_, rb.id, ri, settles) for s_ in b.succs()):
                    bad = re_
                    break
            if bad is None:
                r.ok(f, key, "every path from the read to an RC_WMORE return undoes the read or stores into the context", e["line"])
            else:
                r.bad(f, key, "the RC_WMORE return at line %s is reached from this read without asn_get_undo() on the stream and without a store "
                              "into the context: the resumed call reads the next bit for the same member" % bad.get("line"), e["line"])
    return r


def r05_10(prog, tab):
    """The member index a restartable decoder works with is the one it saved.  In a decoder that keeps its position as
    `ctx->step`: going backwards from every member decoder call (a decoder slot call or an OPEN_TYPE getter) whose
    member is selected by a local index (`elements[edx]`), the most recent event among {assignment to that local,
    store into ctx->step} on every path is a store into ctx->step, or an assignment of the local *from* the context.
    An index taken from a tag-map lookup or a search and not written back leaves, after the member's RC_WMORE, a step
    that belongs to another member: the resumed call parses the rest of this member's octets as a new TLV."""
    r = Rule("R05.10", "at every member decoder call the local member index was restored from, or written to, ctx->step since it last changed", floor=3)
    member_slots = set(common.DECODER_SLOTS)
    for f in scope_decoders(prog):
        def stores_step(y):
            if y["k"] != "assign":
                return False
            lt = strip_casts(y.get("lhs_tree"))
            return isinstance(lt, list) and lt and lt[0] == "member" and lt[2] == "step" and "asn_struct_ctx" in str(lt[4])
        if not any(stores_step(e) for b, i, e in f.events("assign")):
            continue
        n = 0
        for b, i, e in f.calls():
            if not (e.get("slot") in member_slots or str(e.get("callee", "")).startswith("OPEN_TYPE_")):
                continue
            idx = set()
            trees = [a.get("tree") for a in e.get("args", [])] + ([e.get("callee_tree")] if e.get("callee_tree") is not None else [])
            for t in trees:
                for nd in walk(t):
                    if nd[0] == "sub" and "elements" in tree_text(nd[1]) and is_var(nd[2]) and strip_casts(nd[2])[2] == "local":
                        idx.add(strip_casts(nd[2])[1])
            if len(idx) != 1:
                continue
            v = next(iter(idx))
            n += 1
            key = "%s[%s]#%d" % (e.get("callee") or "->" + str(e.get("slot")), v.split("@")[0], n)

            def verdict(y):
                """'ok' / 'bad' / None for one event scanned backwards"""
                if stores_step(y):
                    return "ok"
                if y["k"] == "assign" and is_var(y.get("lhs_tree"), v):
                    if y.get("op") != "=":
                        return None          # edx++ : judged by what surrounds it
                    src = y.get("rhs", {}).get("tree")
                    if src is not None and any(nd[0] == "member" and "asn_struct_ctx" in str(nd[4]) for nd in walk(src)):
                        return "ok"
                    return "bad"
                if y["k"] == "decl" and y.get("id") == v:
                    src = y.get("init", {}).get("tree") if "init" in y else None
                    if src is not None and any(nd[0] == "member" and "asn_struct_ctx" in str(nd[4]) for nd in walk(src)):
                        return "ok"
                    return "bad" if src is not None else None
                return None
            bad = None
            seen = set()
            st = [(b.id, i)]
            while st and bad is None:
                bid, upto = st.pop()
                blk = f.blocks[bid]
                evs = blk.ev[:upto] if upto is not None else blk.ev
                vd = None
                for y in reversed(evs):
                    vd = verdict(y)
                    if vd:
                        if vd == "bad":
                            bad = y
                        break
                if vd:
                    continue
                for p_ in blk.preds:
                    if p_ not in seen:
                        seen.add(p_)
                        st.append((p_, None))
            if bad is None:
                r.ok(f, key, "on every path the index was last restored from, or written to, ctx->step", e["line"])
            else:
                r.bad(f, key, "`%s = %s` (line %s) reaches this member decoder call with no store into ctx->step in between: after RC_WMORE the "
                              "saved step names another member" % (v.split("@")[0], tree_text((bad.get("rhs") or bad.get("init") or {}).get("tree"))[:30], bad.get("line")), e["line"])
    return r


def run(ctx):
    prog = ctx.prog("S")
    tab = load_tables("c05")
    return run_rules(prog, tab) + [r05_3(prog, tab), r05_4(prog, tab), r05_5(prog, tab), r05_6(prog, tab), r05_7(prog, tab), r05_8(prog, tab), r05_9(prog, tab), r05_10(prog, tab)]


def thorough(ctx):
    from .. import selftest
    import sys
    return selftest.run_mutants("C05", sys.modules[__name__])
