"""C10 every accepted specification builds; the compiler never dies — R10.1 pipeline failure reaches the exit status,
R10.2 reference-following recursion is marked, R10.3 the shipped skeleton set links, R10.4 enum switches with an
asserting default are exhaustive."""
import collections
import os
import re

from ..engine import Rule, load_tables
from ..extract import AnalysisBroken
from .. import extract
from ..model import walk, strip_casts, is_var, const_of, tree_text, relpath
from .. import assume, guards

EXPLANATION = (
    "R10.1: in asn1c's main, assuming each pipeline stage (asn1p_parse_file, asn1f_process, asn1print, asn1_compile) "
    "failed, path-sensitive exploration (constants assigned on the path decide `if(exit_code)`) shows that every way "
    "out is exit(n)/return n with n != 0 and that asn1_compile is never called after a failed fixer. R10.3: a model of "
    "the activation algorithm of asn1c_fdeps.c applied to skeletons/file-dependencies: for each codec configuration and "
    "each activatable chain, the emitted file set is link-closed (every external symbol referenced by an emitted .c is "
    "defined by an emitted file or libc/libm), using symbol facts extracted per configuration. R10.4: for every switch "
    "over an enum whose default path reaches an assert through conditions on the switched value only, each enumerator "
    "without a case is constant-folded through those conditions; an enumerator that reaches the failing assert is "
    "reported.")
NOT_DECIDED = "that emitted C compiles (depends on emitted text); reachability of the ~400 asserts in the compiler from valid input"
ASSUMPTIONS = ["sysexits EX_* constants are non-zero"]

STAGES = {"asn1p_parse_file": (0,), "asn1f_process": (-1,), "asn1_compile": (-1,), "asn1print": (-1,)}


def r10_1(prog):
    r = Rule("R10.1", "a failing pipeline stage makes asn1c exit non-zero, and no code is generated after a failed fixer", floor=5)
    f = prog.require("main")
    found = set()

    def classify(b, i, e, env=None):
        ex = e.get("expr")
        if ex and "const" in ex:
            return "fail" if ex["const"] != 0 else "success"
        if ex and is_var(ex["tree"]):
            v = (env or {}).get((strip_casts(ex["tree"])[1], None))
            if isinstance(v, int):
                return "fail" if v != 0 else "success"
        return "unknown:return"
    for b, i, e in f.calls():
        cal = e.get("callee")
        if cal not in STAGES:
            continue
        found.add(cal)
        key = cal
        if e.get("use") in ("discarded", "voidcast"):
            r.bad(f, key, "result of %s is discarded: its failure cannot reach the exit status" % cal, e["line"])
            continue
        subj = assume.subject_of_call(e, None)
        if subj is None:
            r.bad(f, key, "result of %s is not tested" % cal, e["line"])
            continue
        bad = None
        for v in STAGES[cal]:
            hits = assume.explore(f, b, i, subj, v, classify, origin_callid=e["id"], from_entry=False,
                                  terminal_calls={"exit": 0, "_exit": 0}, forbidden_calls=("asn1_compile",) if cal in ("asn1f_process", "asn1p_parse_file") else ())
            for kind, rb, ri, re, path, lost in hits:
                if kind == "abort":
                    continue
                bad = (v, kind, re, path)
                break
            if bad:
                break
        if bad is None:
            r.ok(f, key, "assuming %s failed, every way out of main is a non-zero exit status%s" % (
                cal, " and asn1_compile is not reached" if cal in ("asn1f_process", "asn1p_parse_file") else ""), e["line"])
        else:
            v, kind, re, path = bad
            what = "asn1_compile is still called (code is written for a rejected module)" if kind.startswith("forbidden") else \
                "control reaches `%s` at line %s (%s)" % (re.get("text") or "return", re.get("line"), "status 0" if kind == "success" else kind)
            r.bad(f, key, "assuming %s returned %s, %s" % (cal, "NULL" if v == 0 else v, what), e["line"],
                  witness={"path": guards.path_lines(f, list(path))})
    for need in ("asn1p_parse_file", "asn1f_process", "asn1_compile"):
        if need not in found:
            raise AnalysisBroken("main no longer calls %s" % need)
    return r


def run(ctx):
    prog = ctx.prog("K")
    rules = [r10_1(prog)]
    from . import c10_link, c10_enum
    rules.append(c10_link.run(ctx))
    rules.append(c10_enum.run(prog))
    return rules


def thorough(ctx):
    from .. import selftest
    import sys
    return selftest.run_mutants("C10", sys.modules[__name__])
