"""C10 every accepted specification builds; the compiler never dies — R10.1 pipeline failure reaches the exit status,
R10.2 reference-following recursion is marked, R10.3 the shipped skeleton set links, R10.4 enum switches with an
asserting default are exhaustive."""
import collections
import os
import re

from ..engine import Rule, load_tables
from ..extract import AnalysisBroken
from .. import extract
from ..model import walk, strip_casts, is_var, const_of, tree_text, relpath
from .. import assume, guards

EXPLANATION = (
    "R10.1: in asn1c's main, assuming each pipeline stage (asn1p_parse_file, asn1f_process, asn1print, asn1_compile) "
    "failed, path-sensitive exploration (constants assigned on the path decide `if(exit_code)`) shows that every way "
    "out is exit(n)/return n with n != 0 and that asn1_compile is never called after a failed fixer. R10.3: a model of "
    "the activation algorithm of asn1c_fdeps.c applied to skeletons/file-dependencies: for each codec configuration and "
    "each activatable chain, the emitted file set is link-closed (every external symbol referenced by an emitted .c is "
    "defined by an emitted file or libc/libm), using symbol facts extracted per configuration. R10.4: for every switch "
    "over an enum whose default path reaches an assert through conditions on the switched value only, each enumerator "
    "without a case is constant-folded through those conditions; an enumerator that reaches the failing assert is "
    "reported.")
NOT_DECIDED = "that emitted C compiles (depends on emitted text); reachability of the ~400 asserts in the compiler from valid input"
ASSUMPTIONS = ["sysexits EX_* constants are non-zero"]

STAGES = {"asn1p_parse_file": (0,), "asn1f_process": (-1,), "asn1_compile": (-1,), "asn1print": (-1,)}


def r10_1(prog):
    r = Rule("R10.1", "a failing pipeline stage makes asn1c exit non-zero, and no code is generated after a failed fixer", floor=5)
    f = prog.require("main")
    found = set()

    def classify(b, i, e, env=None):
        ex = e.get("expr")
        if ex and "const" in ex:
            return "fail" if ex["const"] != 0 else "success"
        if ex and is_var(ex["tree"]):
            v = (env or {}).get((strip_casts(ex["tree"])[1], None))
            if isinstance(v, int):
                return "fail" if v != 0 else "success"
        return "unknown:return"
    for b, i, e in f.calls():
        cal = e.get("callee")
        if cal not in STAGES:
            continue
        found.add(cal)
        key = cal
        if e.get("use") in ("discarded", "voidcast"):
            r.bad(f, key, "result of %s is discarded: its failure cannot reach the exit status" % cal, e["line"])
            continue
        subj = assume.subject_of_call(e, None)
        if subj is None:
            r.bad(f, key, "result of %s is not tested" % cal, e["line"])
            continue
        bad = None
        for v in STAGES[cal]:
            hits = assume.explore(f, b, i, subj, v, classify, origin_callid=e["id"], from_entry=False,
                                  terminal_calls={"exit": 0, "_exit": 0}, forbidden_calls=("asn1_compile",) if cal in ("asn1f_process", "asn1p_parse_file") else ())
            for kind, rb, ri, re, path, lost in hits:
                if kind == "abort":
                    continue
                bad = (v, kind, re, path)
                break
            if bad:
                break
        if bad is None:
            r.ok(f, key, "assuming %s failed, every way out of main is a non-zero exit status%s" % (
                cal, " and asn1_compile is not reached" if cal in ("asn1f_process", "asn1p_parse_file") else ""), e["line"])
        else:
            v, kind, re, path = bad
            what = "asn1_compile is still called (code is written for a rejected module)" if kind.startswith("forbidden") else \
                "control reaches `%s` at line %s (%s)" % (re.get("text") or "return", re.get("line"), "status 0" if kind == "success" else kind)
            r.bad(f, key, "assuming %s returned %s, %s" % (cal, "NULL" if v == 0 else v, what), e["line"],
                  witness={"path": guards.path_lines(f, list(path))})
    for need in ("asn1p_parse_file", "asn1f_process", "asn1_compile"):
        if need not in found:
            raise AnalysisBroken("main no longer calls %s" % need)
    return r


RES_RE = re.compile(r"^asn1f_(lookup_symbol|find_terminal|class_access|lookup_module|find_ancestor)")


def mark_guard(f, site_block, site_idx, e):
    """The recursive call is bracketed by the TM_RECURSION mark: a set of `X->_mark |= TM_RECURSION` dominates it, and
    assuming the mark is already set (every test of `_mark & TM_RECURSION` taking its set edge) the call is unreachable."""
    def is_mark_test(t):
        return isinstance(t, list) and t and t[0] == "bin" and t[1] == "&" and \
            any(n[0] == "member" and n[2] == "_mark" for n in walk(t)) and any(n[0] == "enum" and n[1] == "TM_RECURSION" for n in walk(t))
    dom = f.dominators()
    sets = False
    for b, i, x in f.events("assign"):
        if x.get("field") == "_mark" and x.get("op") == "|=" and "TM_RECURSION" in x["rhs"].get("enums", []):
            if (b.id == site_block.id and i < site_idx) or (b.id != site_block.id and b.id in dom.get(site_block.id, ())):
                sets = True
    if not sets:
        return None
    dead = guards.edges_given(f, is_mark_test, "nonzero")
    if not dead:
        return None
    if guards.reach_path(f, f.entry, site_block.id, dead) is None:
        return "TM_RECURSION mark"
    return None


def r10_2(prog, tab):
    """Call-graph cycles of the compiler.  A recursive call is *reference-following* when the expression it descends
    into was obtained from the symbol-resolution family (data flow from asn1f_lookup_symbol/asn1f_find_terminal_*/
    asn1f_class_access into an argument, or into a field of the argument structure); calls that pass a member of the
    parse tree are bounded by the tree.  Every cycle of unguarded edges that contains a reference-following edge can
    revisit the same expression for ever on a recursive ASN.1 definition."""
    from .c05 import var_sources
    from ..model import CallGraph
    import types
    r = Rule("R10.2", "every recursion of the compiler that follows resolved symbol references is broken by the TM_RECURSION mark", floor=8)
    cg = prog.callgraph()
    exc = {(x["rule"], x["function"], x["key"]): x["reason"] for x in tab.get("exceptions", [])}
    edges = collections.defaultdict(lambda: collections.defaultdict(list))   # caller -> callee -> [(site key, line, refdrv, guarded)]
    ncomp = 0
    for comp in cg.sccs():
        cs = set(comp)
        ncomp += 1
        for key in comp:
            f = prog.funcs[key]
            src = var_sources(f)
            rdefs = deftree = None
            # fields of local/param structures assigned from a resolution result: arg->expr = parent_expr
            struct_fed = collections.defaultdict(set)    # var id -> blocks where a resolved expression is stored in it
            for b, i, e in f.events("assign"):
                if e.get("field") and "rhs" in e and (e.get("deref") or e.get("base_kind") == "local"):
                    if any(s_.startswith("call:") and RES_RE.match(s_[5:]) for s_ in src(e["rhs"]["tree"])):
                        struct_fed[e.get("base_id")].add(b.id)
            for b, i, e, targets in cg.sites[key]:
                tg = [t for t in targets if t in cs]
                if not tg:
                    continue
                refdrv = False
                if rdefs is None:
                    from ..dataflow import reaching_defs
                    rdefs, deftree = reaching_defs(f)
                here = rdefs.get((b.id, i), {})
                memo = {}

                def from_res(tree, at, depth=0):
                    """does the value of `tree`, evaluated with the definitions reaching `at`, come from the resolution family?"""
                    for n in walk(tree):
                        if n[0] == "call" and RES_RE.match(n[2]):
                            return True
                        if n[0] == "var" and n[2] in ("local", "param") and depth < 6:
                            for dk in at.get(n[1], ()):
                                if dk not in memo:
                                    memo[dk] = False
                                    memo[dk] = from_res(deftree.get(dk), rdefs.get(dk, {}), depth + 1)
                                if memo[dk]:
                                    return True
                    return False
                for a in e.get("args", []):
                    if from_res(a.get("tree"), here):
                        refdrv = True
                    for n in walk(a.get("tree")):
                        if False and n[0] == "call" and RES_RE.match(n[2]):
                            refdrv = True
                        if n[0] == "var" and n[1] in struct_fed:
                            # the store must be able to reach this call
                            if any(b.id in f.reachable_from([sb]) for sb in struct_fed[n[1]]):
                                refdrv = True
                        if n[0] == "call" and RES_RE.match(n[2]):
                            refdrv = True
                g = mark_guard(f, b, i, e)
                sk = e.get("callee") or ("->" + e.get("slot", "") if e.get("slot") else e.get("fp_var", "?").split("@")[0])
                for t in tg:
                    edges[key][t].append((sk, e["line"], refdrv, g is not None))
    # cycles among unguarded edges
    un = {k: {t for t, lst in d.items() if any(not g for _sk, _l, _r, g in lst)} for k, d in edges.items()}
    un = {k: v for k, v in un.items() if v}
    nodes = set(un) | {t for v in un.values() for t in v}
    sub = types.SimpleNamespace(edges=un, prog=prog)
    cyc = CallGraph.sccs(sub, nodes)
    nref = 0
    for key in sorted(edges):
        f = prog.funcs[key]
        for t, lst in sorted(edges[key].items()):
            for sk, line, refdrv, guarded in lst:
                if not refdrv:
                    continue
                nref += 1
                if guarded:
                    r.ok(f, sk, "reference-following recursion into %s is bracketed by the TM_RECURSION mark" % t, line)
                    continue
                c = next((c for c in cyc if key in c and t in c), None)
                if c is None:
                    r.ok(f, sk, "unmarked reference-following call to %s, but every cycle through it passes a marked edge" % t, line)
                    continue
                ek = ("R10.2", f.name, sk)
                if ek in exc:
                    r.exc(f, sk, exc[ek], line)
                else:
                    r.bad(f, sk, "recursion into %s follows a resolved symbol reference with no TM_RECURSION mark on the cycle {%s}: a "
                                 "self-referential definition recurses until the stack overflows" % (t, ", ".join(c)), line, witness={"cycle": c})
    r.note("%d recursive components, %d reference-following recursive call sites" % (ncomp, nref))
    return r


def compiler_status_functions(prog, tab):
    """int functions of libasn1compiler that can really answer `this construct could not be compiled` (least fixpoint):
    base: the function issues FATAL (arg->logger_cb(1, ...)), or is listed in the table as failing silently (confirmed by
    reading), and has a negative constant return that is not merely the reaction to a callee's result; step: a negative
    constant return guarded by the result of a callee in the set, or the callee's result returned / stored.  A
    `return -1` that only reacts to a callee which itself can never fail does not put the function in the set, and
    functions whose -1 is a value (native_long_sign, compute_extensions_start) never qualify."""
    cand = {k: f for k, f in prog.funcs.items() if "libasn1compiler/" in f.relfile and f.ret_type == "int"}
    silent = {x["function"] for x in tab.get("silent_failure_functions", [])}
    cg = prog.callgraph()

    def guard_callees(f, rb):
        """callees whose result is tested by a branch that edge-dominates block rb (directly in the condition)"""
        out = set()
        for d in f.dominators().get(rb.id, ()):
            tb = f.blocks[d]
            if not tb.term or "cond" not in tb.term or len(tb.succ) < 2:
                continue
            if not any(f.edge_dominates(d, idx, rb.id) for idx in (0, 1)):
                continue
            for n in walk(tb.term["cond"].get("full_tree") or tb.term["cond"]["tree"]):
                if n[0] == "call":
                    out.add(n[2])
        return out
    neg = {}
    for k, f in cand.items():
        rows = []
        for b, i, e in f.returns():
            ex = e.get("expr")
            if ex and isinstance(ex.get("const"), int) and ex["const"] < 0:
                rows.append(guard_callees(f, b))
        neg[k] = rows
    out = set()
    for k, f in cand.items():
        diag = f.name in silent or any(e["k"] == "call" and e.get("slot") == "logger_cb" and e.get("args") and e["args"][0].get("const") == 1
                                       for b, i, e in f.events())
        if diag and any(not g for g in neg[k]):
            out.add(k)
    changed = True
    while changed:
        changed = False
        names = {prog.funcs[k].name for k in out}
        for k, f in cand.items():
            if k in out:
                continue
            if any(g & names for g in neg[k]):
                out.add(k)
                changed = True
                continue
            for b, i, e, tg in cg.sites[k]:
                if any(t in out for t in tg) and e.get("use") in ("returned", "assigned", "init"):
                    out.add(k)
                    changed = True
                    break
    return out


def r10_7(prog, tab):
    """No failure status inside the code generator is dropped.  For every call in libasn1compiler to a function that
    can answer a negative status: the result is held, and assuming it is -1 the exploration reaches only failing
    (non-zero) returns of the caller.  A dropped status means a construct the generator could not express is silently
    left out of the emitted C (which then does not compile) while asn1c exits 0."""
    from . import c11
    r = Rule("R10.7", "a failure status of a code-generator function is never dropped: it reaches the caller's return value", floor=15)
    sf = compiler_status_functions(prog, tab)
    cg = prog.callgraph()
    exc = {(x["function"], x["key"]): x["reason"] for x in tab.get("r10_7_exceptions", [])}
    r.note("status functions of the code generator: %d" % len(sf))
    for f in sorted(prog.funcs.values(), key=lambda f: f.key):
        if "libasn1compiler/" not in f.relfile:
            continue
        classify = c11.classify_for(f, nonzero_fails=True)
        seen = {}
        for b, i, e, targets in sorted(cg.sites[f.key], key=lambda x: (x[2].get("line") or 0, x[0].id, x[1])):
            tg = [t for t in targets if t in sf]
            if not tg:
                continue
            if "callee" not in e:
                # a call through a function pointer field (arg->default_cb) whose possible targets can fail
                if not e.get("slot"):
                    continue
                e = dict(e)
                e["callee"] = "->" + e["slot"]
            seen[e["callee"]] = seen.get(e["callee"], 0) + 1
            key = "%s#%d" % (e["callee"], seen[e["callee"]])
            use = e.get("use")
            if (f.name, key) in exc:
                r.exc(f, key, exc[(f.name, key)], e["line"])
                continue
            # context: a NULL argument can switch the callee's failing paths off (`if(opt_ioc) { ... return -1; }`)
            g = prog.funcs[tg[0]] if len(tg) == 1 else None
            if g is not None:
                names = {prog.funcs[k].name for k in sf}
                off = None
                for j, a in enumerate(e.get("args", [])):
                    if a.get("const") != 0 or j >= len(g.params):
                        continue
                    pid_ = g.params[j]["id"]
                    allguard = True
                    nreal = 0
                    for rb, ri, re_ in g.returns():
                        ex = re_.get("expr")
                        if not (ex and isinstance(ex.get("const"), int) and ex["const"] < 0):
                            continue
                        # a return that only reacts to a callee that cannot fail is not a real failure
                        gc = set()
                        guarded_by_param = False
                        for d in g.dominators().get(rb.id, ()):
                            tb = g.blocks[d]
                            if not tb.term or "cond" not in tb.term or len(tb.succ) < 2:
                                continue
                            if g.edge_dominates(d, 0, rb.id) and is_var(strip_casts(tb.term["cond"]["tree"]), pid_):
                                guarded_by_param = True
                            if any(g.edge_dominates(d, idx, rb.id) for idx in (0, 1)):
                                gc |= {n[2] for n in walk(tb.term["cond"].get("full_tree") or tb.term["cond"]["tree"]) if n[0] == "call"}
                        if gc and not (gc & names):
                            continue
                        nreal += 1
                        if not guarded_by_param:
                            allguard = False
                    if nreal and allguard:
                        off = g.params[j]["id"].split("@")[0]
                if off:
                    r.ok(f, key, "%s cannot fail here: its failing returns all lie under `if(%s)` and the argument is NULL" % (e["callee"], off), e["line"])
                    continue
            if use in ("discarded", "voidcast"):
                r.bad(f, key, "status of %s is discarded: when it fails, what it was to emit is silently missing from the generated code" % e["callee"], e["line"])
                continue
            if use == "returned":
                r.ok(f, key, "status returned to the caller", e["line"], nontrivial=False)
                continue
            if f.ret_type == "void":
                r.bad(f, key, "status of %s consumed in a void function: it cannot propagate" % e["callee"], e["line"])
                continue
            subj = assume.subject_of_call(e, None)
            if subj is None:
                r.bad(f, key, "status of %s is used as `%s` and never tested" % (e["callee"], use), e["line"])
                continue
            bad = None
            for fe in (False, True):
                hits = assume.explore(f, b, i, subj, -1, classify, origin_callid=e.get("id"), from_entry=fe, rel_facts_only=True)
                hits = [h for h in hits if h[0] != "abort"]
                bad = next((h for h in hits if h[0] != "fail"), None)
                if bad is None:
                    break
            if bad is None:
                r.ok(f, key, "assuming -1, every return reached is a failing one", e["line"])
            else:
                kind, rb, ri, re_, path, lost = bad
                r.bad(f, key, "assuming %s returned -1, control reaches the return at line %s (%s)%s" % (
                    e["callee"], re_.get("line"), kind, " after the status variable was overwritten" if lost else ""), e["line"],
                    witness={"path": guards.path_lines(f, list(path))})
    return r


def r10_8(prog, tab):
    """Numbers spliced into C identifiers are non-negative.  In libasn1compiler, wherever a printf-style format places a
    `%s` directly after an identifier character (`asn_DFL_%d_cmp_%s`) and the corresponding argument is asn1p_itoa(v), the
    text may start with `-`; the identifier is then not an identifier and the emitted C does not compile while asn1c
    exits 0.  The call must be dominated by a test that v is non-negative."""
    import re as _re
    r = Rule("R10.8", "a number printed inside a C identifier is never negative", floor=2)
    exc = {(x["function"], x["key"]): x["reason"] for x in tab.get("r10_8_exceptions", [])}
    for f in sorted(prog.funcs.values(), key=lambda f: f.key):
        if "libasn1compiler/" not in f.relfile:
            continue
        n = 0
        for b, i, e in sorted(f.calls(), key=lambda z: (z[2].get("line") or 0, z[0].id, z[1])):
            args = e.get("args", [])
            fi = None
            for ai, a in enumerate(args):
                t = a.get("tree")
                if isinstance(t, list) and t and t[0] == "str" and "%" in str(t[1]):
                    fi = ai
            if fi is None:
                continue
            fmt = str(args[fi]["tree"][1])
            convs = list(_re.finditer(r"%[-+ #0]*\d*(?:\.\d+)?(?:hh|h|ll|l|z|j|t)?([diouxXscpf%])", fmt))
            k = 0
            for m in convs:
                if m.group(1) == "%":
                    continue
                ai = fi + 1 + k
                k += 1
                if m.group(1) != "s" or m.start() == 0 or not _re.match(r"[A-Za-z0-9_]", fmt[m.start() - 1]) or ai >= len(args):
                    continue
                if any(c.start() < m.start() <= c.end() and c is not m for c in convs):
                    continue        # the preceding character belongs to another conversion, it is not literal identifier text
                at = strip_casts(args[ai].get("tree"))
                if not (isinstance(at, list) and at and at[0] == "call"):
                    continue
                if at[2] != "asn1p_itoa":
                    # a wrapper around asn1p_itoa that rewrites the minus sign makes the text identifier-safe
                    g = prog.resolve_direct(at[2], f)
                    if g is None or not any(x.get("callee") == "asn1p_itoa" for b_, i_, x in g.calls()):
                        continue
                    n += 1
                    key = "%s#%d" % (fmt.strip()[:28], n)
                    rewrites = any(bl.term and "cond" in bl.term and any(const_of(nd) == 45 for nd in walk(bl.term["cond"]["tree"]) if isinstance(nd, list)) for bl in g.blocks.values()) \
                        and any(x["k"] == "assign" and x.get("deref") for b_, i_, x in g.events("assign"))
                    if rewrites:
                        r.ok(f, key, "%s() replaces the minus sign before the text is used in an identifier" % at[2], e["line"])
                    else:
                        r.bad(f, key, "%s() hands on asn1p_itoa text unchanged into an identifier" % at[2], e["line"])
                    continue
                n += 1
                key = "%s#%d" % (fmt.strip()[:28], n)
                vt = at[3][0] if at[3] else None
                implied = None
                if vt is not None:
                    facts = []
                    for d in f.dominators().get(b.id, ()):
                        tb = f.blocks[d]
                        if not tb.term or "cond" not in tb.term or len(tb.succ) < 2 or tb.term["kind"] == "SwitchStmt":
                            continue
                        for idx, truth in ((0, True), (1, False)):
                            if f.edge_dominates(d, idx, b.id):
                                fo = assume._fact_of(tb.term["cond"]["tree"], truth)
                                if fo is not None:
                                    facts.append(fo)
                    implied = assume.fact_query(tuple(facts), ["bin", ">=", vt, ["int", 0]])
                if implied is True:
                    r.ok(f, key, "the dominating branches imply the number is non-negative", e["line"])
                elif (f.name, key) in exc:
                    r.exc(f, key, exc[(f.name, key)], e["line"])
                else:
                    r.bad(f, key, "`%s` puts asn1p_itoa(%s) inside an identifier and nothing establishes that the number is non-negative: a "
                                  "negative value yields `..._-5`, which does not compile, while asn1c exits 0" % (fmt.strip()[:40], tree_text(vt) if vt is not None else "?"), e["line"])
    return r


def r10_10(prog, tab, rid="R10.10", only=None, floor=100):
    """An array of the compiler's own data structures is walked against its own count.  The parser/fixer structures keep
    (array, count) pairs -- row[]/rows, column[]/columns, elements[]/el_count, components[]/comp_count, ... (frozen
    in tables/c10.json after reading the headers).  For every subscript of such an array by a variable: if the
    comparisons that dominate it bound that variable by a count field, one of them is the array's own count.  An
    index bounded only by another array's count (`cn < rows` for column[cn]) stops short or runs past the array: the
    compiler reads beyond it (it may die by signal) or misses entries that are there."""
    r = Rule(rid, "a variable index into one of the compiler's counted arrays is bounded by that array's own count, not by another array's", floor=floor)
    pairs = {k: set(v) for k, v in tab["array_counts"].items()}
    allc = set().union(*pairs.values())
    for f in sorted(prog.funcs.values(), key=lambda f: f.key):
        if only is not None and not only(f):
            continue
        dom = f.dominators()
        n = 0
        for b, i, e in f.events("subscript"):
            bt = strip_casts(e["basex"]["tree"])
            if not (isinstance(bt, list) and bt and bt[0] == "member" and bt[2] in pairs):
                continue
            if "const" in e["index"]:
                continue
            ivars = {x[1] for x in walk(e["index"]["tree"]) if x[0] == "var"}
            if not ivars:
                continue
            own, other, where = set(), set(), None
            for d in dom.get(b.id, ()):
                tb = f.blocks[d]
                if not tb.term or "cond" not in tb.term:
                    continue
                ct = tb.term["cond"].get("full_tree") or tb.term["cond"]["tree"]
                for c in walk(ct):
                    if isinstance(c, list) and c and c[0] == "bin" and c[1] in ("<", "<=", ">", ">=", "!=", "=="):
                        vs = {x[1] for x in walk(c) if x[0] == "var"}
                        if not (vs & ivars):
                            continue
                        cs = {x[2] for x in walk(c) if x[0] == "member" and x[2] in allc}
                        own |= cs & pairs[bt[2]]
                        if cs - pairs[bt[2]]:
                            other |= cs - pairs[bt[2]]
                            where = tb.term.get("line")
            if not own and not other:
                continue             # not bounded by a count field at all (a NULL-terminated walk, a computed index): no verdict
            n += 1
            key = "%s[%s]#%d" % (tree_text(bt), tree_text(e["index"]["tree"]), n)
            if own:
                r.ok(f, key, "bounded by the array's own count (%s)" % ", ".join(sorted(own)), e["line"])
            else:
                r.bad(f, key, "`%s` is indexed by `%s`, which the condition at line %s bounds by `%s` -- the count of another array -- and nothing "
                              "bounds it by `%s`" % (tree_text(bt), tree_text(e["index"]["tree"]), where, ", ".join(sorted(other)),
                                                      "/".join(sorted(pairs[bt[2]]))), e["line"])
    return r


def r10_12(prog):
    """A type the code generator claims to implement has its skeleton.  Every row of the language map asn1_lang_C whose
    handler writes `#include <Type.h>` for a built-in type (asn1c_lang_C_type_SIMPLE_TYPE, ..._REAL: the include name is
    the type's name from asn1p_expr_type2str with spaces turned into `_`) names a header that exists
    in skeletons/.  A row without a skeleton makes asn1c exit 0 with code that cannot be compiled; without the row the
    type is refused (`Cannot compile`, non-zero exit)."""
    import os
    import re as _re
    from .. import extract
    r = Rule("R10.12", "every built-in type mapped to the simple-type generator has a skeleton header of that name", floor=20)
    rows = names = None
    for g in prog.globals:
        if g["name"] == "asn1_lang_C" and g.get("init"):
            rows = g["init"]
        if g["name"] == "asn1p_expr_type2str" and g.get("definition") and g.get("init"):
            names = g["init"]
    if not rows or not names:
        raise AnalysisBroken("asn1_lang_C / asn1p_expr_type2str initialisers not found")
    f = prog.require("asn1c_lang_C_type_SIMPLE_TYPE")
    skel = os.path.join(extract.get_repo(), "skeletons")
    for row in rows:
        if not isinstance(row, dict) or row.get("type_cb") not in ("fn:asn1c_lang_C_type_SIMPLE_TYPE", "fn:asn1c_lang_C_type_REAL"):
            continue
        if row.get("meta_match") != 1:
            continue
        idx = row.get("expr_match")
        nm = names[idx] if isinstance(idx, int) and idx < len(names) else None
        if not (isinstance(nm, str) and nm.startswith("str:")):
            continue
        nm = nm[4:]
        hdr = nm.replace(" ", "_") + ".h"       # TNF_INCLUDE: asn1c_make_identifier(AMI_MASK_ONLY_SPACES ...)
        key = "asn1_lang_C[%s]" % nm
        if os.path.exists(os.path.join(skel, hdr)):
            r.ok(f, key, "skeletons/%s exists" % hdr, f.line)
        else:
            r.bad(f, key, "the language map sends `%s` to the simple-type generator, which writes #include <%s>, and skeletons/ has no such "
                          "file: asn1c exits 0 and the output does not compile" % (nm, hdr), f.line)
    return r


def r10_13(prog):
    """The text of a user's string value never ends a C comment.  Wherever the code generator's format literal places a
    `%s` inside a `/* ... */` comment, the corresponding argument is not the text of a value taken from the
    specification (asn1f_printable_value(...), `...value.string.buf`) unless it passes through asn1c_comment_safe();
    identifiers, type names and numbers cannot contain `*/`.  `DEFAULT "x*/y"` otherwise closes the comment and the
    emitted header does not compile while asn1c exits 0."""
    import re as _re
    r = Rule("R10.13", "a value's text spliced by %s into an emitted C comment goes through the comment-safe filter", floor=10)
    for f in sorted(prog.funcs.values(), key=lambda f: f.key):
        if "libasn1compiler/" not in f.relfile:
            continue
        n = 0
        for b, i, e in f.calls():
            if e.get("callee") != "asn1c_compiled_output":
                continue
            args = e.get("args", [])
            lit = None
            for ai, a in enumerate(args):
                t = strip_casts(a.get("tree"))
                if isinstance(t, list) and t and t[0] == "str" and ai >= 4:
                    lit = (ai, t[1])
                    break
            if not lit:
                continue
            ai, fmt = lit
            # conversion specifications, and which of them lie inside a comment of this literal
            pos = 0
            incomment = False
            k = 0
            j = 0
            while j < len(fmt):
                if fmt.startswith("/*", j):
                    incomment = True
                    j += 2
                    continue
                if fmt.startswith("*/", j):
                    incomment = False
                    j += 2
                    continue
                if fmt[j] == "%":
                    m = _re.match(r"%[-+ #0-9.*lzhjt]*([a-zA-Z%])", fmt[j:])
                    if not m:
                        j += 1
                        continue
                    if m.group(1) != "%":
                        argi = ai + 1 + k
                        k += 1
                        if m.group(1) == "s" and incomment and argi < len(args):
                            n += 1
                            at = args[argi].get("tree")
                            key = "comment-%%s#%d" % n
                            st = strip_casts(at)
                            user = False
                            why = None
                            filt = isinstance(st, list) and st and st[0] == "call" and st[2] == "asn1c_comment_safe"
                            for nd in walk(at):
                                if nd[0] == "call" and nd[2] == "asn1f_printable_value":
                                    user, why = True, "asn1f_printable_value()"
                                if nd[0] == "member" and nd[2] == "buf" and any(x[0] == "member" and x[2] == "string" for x in walk(nd)):
                                    user, why = True, "a string value's buffer"
                            if not user:
                                r.ok(f, key, "the argument (%s) is not a value's text" % tree_text(at)[:40], e["line"], nontrivial=False)
                            elif filt:
                                r.ok(f, key, "the value's text passes through asn1c_comment_safe()", e["line"])
                            else:
                                r.bad(f, key, "%s is spliced into the comment `%s` unfiltered: a value containing `*/` ends the comment and the rest "
                                              "of the text is compiled as C" % (why, fmt.strip()[:40]), e["line"])
                    j += len(m.group(0))
                    continue
                j += 1
    return r


_FMT_SPEC = re.compile(r"%(?:\d+\$)?[-+ #0']*(\*|\d+)?(?:\.(\*|\d+))?(hh|h|ll|l|j|z|t|L|q)?([diouxXeEfgGaAcspn%])")


def r10_14(prog, rid="R10.14", floor=1200, what="the compiler"):
    """Diagnostics and output calls get the arguments their format asks for.  The compiler's own printf-like functions
    (the error/debug handlers behind FATAL/WARNING/DEBUG, OUT, safe_printf, abuf_printf, ...) carry no format attribute,
    so the C compiler does not check them.  For every call of a variadic function whose last fixed argument is a string
    literal with conversion specifications (after macro expansion, reachable blocks only): the number of variadic
    arguments equals the number the format consumes, a `%s` gets a character pointer, an integer conversion an
    integer, a floating conversion a double.  A `%s` fed an int, or one argument too few, crashes asn1c on the very path
    that was to print a diagnostic."""
    r = Rule(rid, "every printf-like call of %s passes the number and kinds of arguments its format consumes" % what, floor=floor)
    for f in sorted(prog.funcs.values(), key=lambda f: f.key):
        reach = f.reachable_from([f.entry]) if f.entry is not None else set()
        seen = set()
        n = 0
        for b, i, e in f.calls():
            if b.id not in reach or not e.get("variadic"):
                continue
            pt = e.get("param_types") or []
            fi = len(pt) - 1
            args = e.get("args", [])
            if fi < 0 or fi >= len(args):
                continue
            t = strip_casts(args[fi].get("tree"))
            if not (isinstance(t, list) and t and t[0] == "str") or t[1] == "<wide>":
                continue
            cal = e.get("callee") or ("->" + str(e.get("slot")))
            if cal in ("scanf", "sscanf", "fscanf"):
                continue
            fmt = t[1]
            if (e.get("line"), cal, fmt) in seen or (e.get("line"), "bad") in seen:
                continue          # the logging macros expand one call per run-time configuration: one report per source line
            seen.add((e.get("line"), cal, fmt))
            kinds = []
            for m in _FMT_SPEC.finditer(fmt):
                if m.group(4) == "%":
                    continue
                if m.group(1) == "*":
                    kinds.append("d")
                if m.group(2) == "*":
                    kinds.append("d")
                kinds.append(m.group(4))
            va = args[fi + 1:]
            n += 1
            key = "%s@%s#%d" % (cal, e.get("line"), n)
            if len(va) != len(kinds):
                seen.add((e.get("line"), "bad"))
                r.bad(f, key, "the format `%s` consumes %d argument(s) and the call passes %d: %s" % (
                    fmt[:60], len(kinds), len(va), "the last conversions read whatever follows on the stack" if len(va) < len(kinds)
                    else "every conversion after the surplus one gets its neighbour's argument"), e["line"])
                continue
            wrong = None
            for cv, a in zip(kinds, va):
                ty = a.get("type", "")
                ptr = "*" in ty or "[" in ty
                if cv == "s":
                    ok = ptr and ("char" in ty or "uint8_t" in ty)
                elif cv in "diouxXc":
                    ok = not ptr and "double" not in ty and "float" not in ty
                elif cv in "eEfgGaA":
                    ok = "double" in ty or "float" in ty
                elif cv == "p":
                    ok = ptr
                else:
                    ok = True
                if not ok:
                    wrong = (cv, ty, tree_text(a.get("tree")))
                    break
            if wrong:
                seen.add((e.get("line"), "bad"))
                r.bad(f, key, "`%%%s` in `%s` is given `%s` of type %s" % (wrong[0], fmt[:60], wrong[2][:40], wrong[1]), e["line"])
            else:
                r.ok(f, key, "%d conversion(s), argument kinds agree" % len(kinds), e["line"], nontrivial=bool(kinds))
    return r



def run(ctx):
    prog = ctx.prog("K")
    tab = load_tables("c10")
    rules = [r10_1(prog), r10_2(prog, tab)]
    from . import c10_link, c10_enum
    rules.append(c10_link.run(ctx))
    rules.append(c10_enum.run(prog))
    from . import c11

    def compiler_fatal(e):
        # FATAL(...) in libasn1compiler expands to arg->logger_cb(1, fmt, ...)
        return e["k"] == "call" and e.get("slot") == "logger_cb" and e.get("args") and e["args"][0].get("const") == 1
    rules.append(c11.r11_3(prog, tab, rid="R10.5", where="libasn1compiler/", fatal=compiler_fatal, floor=15, exckey="r10_5_exceptions", nonzero_fails=True))
    rules.append(c11.r11_3(prog, load_tables("c11"), rid="R10.6", where="libasn1fix/", floor=60))
    rules.append(r10_7(prog, tab))
    rules.append(r10_8(prog, tab))
    rules.append(r10_10(prog, tab))
    rules.append(r10_12(prog))
    rules.append(r10_13(prog))
    rules.append(r10_14(prog))
    # R10.15: a name taken from a formatter's static buffer is not printed after the buffer was refilled (rule R12.7): the
    # emitted identifier would be another one and the output would not compile
    from . import c12
    rules.append(c12.r12_7(prog, load_tables("c12"), rid="R10.15"))
    # R10.16: the compiler builds every emitted line through (v)snprintf into growing buffers (abuf_printf, asn1c_compiled_output,
    # asn1p_itoa_s, ...): the fit test follows C99 7.19.6.5 (rules/fit.py); `length <= size` trips abuf_printf's own assertion
    # (asn1c dies) or emits a line short of its last character (output does not build)
    from . import fit
    rules.append(fit.snprintf_fit(prog, "R10.16", 9, "the compiler and its support libraries"))
    # R10.9: asn1c terminates: exact rule over every loop of the compiler
    from . import termination
    rules.append(termination.rule_for(prog, "R10.9", "the compiler (parser actions, fixer, printer, code generator)", set(prog.funcs.keys()), 250))
    return rules


def thorough(ctx):
    from .. import selftest
    import sys
    return selftest.run_mutants("C10", sys.modules[__name__])
