"""State-free cycles: an exact non-termination rule.

A cycle through a loop header on which (a) nothing is stored to memory, no global is written and only `quiet`
functions are called, and (b) no local variable is both written on the cycle and read on it before that write (no
loop-carried local), computes the same values and takes the same branches on every iteration after the first: once
taken twice it is taken for ever.  The code is deterministic, so this is not a heuristic; the only imprecision is the
feasibility of the cycle as a path, which is checked for contradictory repeated conditions.

`quiet` functions are computed from the program: a function is quiet when it stores only through its own pointer
parameters (recorded per parameter), writes no global, and calls only quiet functions."""
from ..model import walk, strip_casts, is_var, tree_text, const_of
from .loops import simple_cycles

PURE_LIBC = {"__assert_fail", "abort", "exit", "memcmp", "strlen", "strcmp", "strncmp", "strchr", "memchr", "abs", "labs", "isdigit", "isspace", "isalpha", "__errno_location"}


def _lhs_kind(lt):
    """('local', var id) for a plain variable or a field path inside a local aggregate; ('mem', None) otherwise"""
    t = strip_casts(lt)
    if is_var(t):
        return ("local" if t[2] in ("local", "param") else "global"), t[1]
    x = t
    while isinstance(x, list) and x and x[0] in ("member", "sub"):
        if x[0] == "member" and x[3]:
            return "mem", None
        x = strip_casts(x[1])
    if is_var(x) and x[2] in ("local", "param") and "*" not in x[3]:
        return "local", x[1]
    return "mem", None


def _reads(tree, out):
    """variables read by an expression tree (the operand of & is not a read; the left side of a plain = is not)"""
    t = tree
    if not isinstance(t, list) or not t:
        return
    if t[0] == "var":
        out.append(t[1])
        return
    if t[0] == "un" and t[1] == "&":
        s = strip_casts(t[2])
        if is_var(s):
            return
        # &a[i], &p->f: the index / base pointer is read
        for c in s[1:] if isinstance(s, list) else []:
            if isinstance(c, list):
                _reads(c, out)
        return
    if t[0] == "bin" and t[1] == "=":
        l = strip_casts(t[2])
        if not is_var(l):
            _reads(l, out)
        _reads(t[3], out)
        return
    for c in t[1:]:
        if isinstance(c, list):
            if c and isinstance(c[0], str):
                _reads(c, out)
            else:
                for cc in c:
                    if isinstance(cc, list):
                        _reads(cc, out)


class Quiet:
    def __init__(self, prog):
        self.prog = prog
        self.noisy = set()
        self.why = {}
        self.writes = {}       # function name -> set of parameter indexes stored through
        self.reads = {}        # function name -> set of parameter indexes read through
        self._solve()

    def _solve(self):
        prog = self.prog
        funcs = {f.name: f for f in prog.funcs.values()}
        for name, f in funcs.items():
            self.writes[name] = set()
            self.reads[name] = set()
        changed = True
        first = True
        while changed:
            changed = False
            for name, f in funcs.items():
                if name in self.noisy:
                    continue
                pidx = {p["id"]: k for k, p in enumerate(f.params)}
                noisy = False
                w, rd = set(self.writes[name]), set(self.reads[name])
                for b, i, e in f.events():
                    if e["k"] == "assign" and e.get("lhs_tree") is not None:
                        kind, vid = _lhs_kind(e["lhs_tree"])
                        if kind == "global":
                            noisy = True
                        elif kind == "mem":
                            # through which root?
                            roots = [n for n in walk(e["lhs_tree"]) if n[0] == "var"]
                            root = roots[0] if roots else None
                            if root is not None and root[1] in pidx:
                                w.add(pidx[root[1]])
                            else:
                                noisy = True
                    elif e["k"] == "call":
                        cal = e.get("callee")
                        if cal is None:
                            noisy = True
                        elif cal in PURE_LIBC:
                            pass
                        elif cal not in funcs or cal in self.noisy:
                            noisy = True
                        else:
                            for ai, a in enumerate(e.get("args", [])):
                                t = strip_casts(a.get("tree"))
                                if is_var(t) and t[1] in pidx:
                                    if ai in self.writes[cal]:
                                        w.add(pidx[t[1]])
                                    if ai in self.reads[cal]:
                                        rd.add(pidx[t[1]])
                                elif ai in self.writes[cal]:
                                    # the callee stores through this argument: fine if it is the address of a local
                                    if not (isinstance(t, list) and t and t[0] == "un" and t[1] == "&" and _lhs_kind(t[2])[0] == "local"):
                                        s_ = t
                                        while isinstance(s_, list) and s_ and s_[0] in ("member", "sub", "bin"):
                                            s_ = strip_casts(s_[1] if s_[0] != "bin" else s_[2])
                                        if is_var(s_) and s_[1] in pidx:
                                            w.add(pidx[s_[1]])
                                        elif not (is_var(s_) and s_[2] == "local" and "[" in s_[3]):
                                            noisy = True
                    if noisy:
                        break
                if not noisy and first:
                    # reads through parameters (the left side of a plain assignment is not a read)
                    trees = []
                    for b, i, e in f.events():
                        if e["k"] == "assign":
                            if "rhs" in e:
                                trees.append(e["rhs"]["tree"])
                            if e.get("op") != "=" and e.get("lhs_tree") is not None:
                                trees.append(e["lhs_tree"])
                        elif e["k"] == "call":
                            trees += [a.get("tree") for a in e.get("args", [])]
                        elif e["k"] == "decl" and "init" in e:
                            trees.append(e["init"]["tree"])
                        elif e["k"] == "return" and e.get("expr"):
                            trees.append(e["expr"]["tree"])
                        elif e["k"] == "assert":
                            trees.append(e["cond"]["tree"])
                    for b in f.blocks.values():
                        if b.term and "cond" in b.term:
                            trees.append(b.term["cond"].get("full_tree") or b.term["cond"]["tree"])
                    for tree in trees:
                        for n in walk(tree):
                            if n[0] == "un" and n[1] == "*" and is_var(n[2]) and strip_casts(n[2])[1] in pidx:
                                rd.add(pidx[strip_casts(n[2])[1]])
                            if n[0] == "member" and n[3] and is_var(n[1]) and strip_casts(n[1])[1] in pidx:
                                rd.add(pidx[strip_casts(n[1])[1]])
                            if n[0] == "sub" and is_var(n[1]) and strip_casts(n[1])[1] in pidx:
                                rd.add(pidx[strip_casts(n[1])[1]])
                if noisy:
                    self.noisy.add(name)
                    changed = True
                elif w != self.writes[name] or rd != self.reads[name]:
                    self.writes[name], self.reads[name] = w, rd
                    changed = True
            first = False

    def is_quiet(self, name):
        return name in self.writes and name not in self.noisy


def cycle_is_state_free(f, cyc, quiet):
    """None if the cycle changes state (or cannot be judged); else a short description"""
    written = []          # in order
    read_first = set()    # variables read before being written on the cycle
    wset = set()
    conds = {}

    def rd(tree):
        out = []
        _reads(tree, out)
        for v in out:
            if v not in wset:
                read_first.add(v)

    def wr(v):
        if v not in wset:
            wset.add(v)
            written.append(v)
    for pos, bid in enumerate(cyc):
        b = f.blocks[bid]
        for e in b.ev:
            k = e["k"]
            if k == "assign":
                if e.get("lhs_tree") is None:
                    return None
                kind, vid = _lhs_kind(e["lhs_tree"])
                if kind != "local":
                    return None
                if "rhs" in e:
                    rd(e["rhs"]["tree"])
                lt = strip_casts(e["lhs_tree"])
                if not is_var(lt):
                    rd_out = []
                    for c in lt[1:]:
                        if isinstance(c, list) and c and c[0] == "sub":
                            _reads(c[2], rd_out)
                    if e.get("op") != "=":
                        return None
                    # a field of a local aggregate: the aggregate is partly overwritten; treat as written only if
                    # nothing reads it on the cycle before (conservative: count as a read-modify-write)
                    if vid not in wset:
                        read_first.add(vid)
                    wr(vid)
                    continue
                if e.get("op") != "=":
                    if vid not in wset:
                        read_first.add(vid)       # ++, +=: reads its own previous value
                wr(vid)
            elif k == "decl":
                if "init" in e:
                    rd(e["init"]["tree"])
                wr(e["id"])
            elif k == "call":
                cal = e.get("callee")
                if cal is None:
                    return None
                if cal in PURE_LIBC:
                    for a in e.get("args", []):
                        rd(a.get("tree"))
                    continue
                if not quiet.is_quiet(cal):
                    return None
                for ai, a in enumerate(e.get("args", [])):
                    t = strip_casts(a.get("tree"))
                    if isinstance(t, list) and t and t[0] == "un" and t[1] == "&" and _lhs_kind(t[2])[0] == "local":
                        vid = _lhs_kind(t[2])[1]
                        if ai in quiet.reads[cal] and vid not in wset:
                            read_first.add(vid)
                        if ai in quiet.writes[cal]:
                            wr(vid)
                        elif ai not in quiet.reads[cal]:
                            pass
                    else:
                        if ai in quiet.writes[cal]:
                            # stores through a pointer that is not the address of a local: memory changes
                            s_ = t
                            while isinstance(s_, list) and s_ and s_[0] in ("member", "sub", "bin"):
                                s_ = strip_casts(s_[1] if s_[0] != "bin" else s_[2])
                            if is_var(s_) and s_[2] == "local" and "[" in s_[3]:
                                if s_[1] not in wset:
                                    read_first.add(s_[1])
                                wr(s_[1])
                            else:
                                return None
                        rd(a.get("tree"))
            elif k in ("return",):
                return None
        nxt = cyc[(pos + 1) % len(cyc)]
        if b.term and "cond" in b.term:
            ct = b.term["cond"].get("full_tree") or b.term["cond"]["tree"]
            rd(b.term["cond"]["tree"])
            succs = [s for s in b.succ]
            if b.term.get("kind") != "SwitchStmt" and len(succs) >= 2 and succs[0] != succs[1]:
                txt = tree_text(strip_casts(b.term["cond"]["tree"]))
                edge = 0 if succs[0] == nxt else 1
                neg = False
                while txt.startswith("!"):
                    txt = txt[1:]
                    neg = not neg
                if neg:
                    edge = 1 - edge
                if txt in conds and conds[txt] != edge:
                    return None              # the same condition taken both ways with nothing changed: not a path
                conds[txt] = edge
    carried = read_first & wset
    if carried:
        return None
    return "nothing is stored to memory and no local is carried from one iteration to the next (locals set on the cycle: %s)" % (
        ", ".join(sorted(v.split("@")[0] for v in wset)) or "none")


def state_free_rule(prog, rule, scope, exceptions=None, quiet=None):
    quiet = quiet or Quiet(prog)
    exceptions = exceptions or {}
    n = 0
    for key in sorted(scope):
        f = prog.funcs[key]
        for header, body in f.loops():
            n += 1
            hb = f.blocks[header]
            line = (hb.term or {}).get("line")
            if line is None:
                for bid in sorted(body, reverse=True):
                    t = f.blocks[bid].term
                    if t and t.get("line"):
                        line = t["line"]
                        break
            lk = "loop:%s" % (tree_text(hb.term["cond"]["tree"]) if hb.term and "cond" in hb.term else "header%d" % header)
            cycles = simple_cycles(f, header, body)
            if cycles is None:
                rule.ok(f, lk, "loop too large to enumerate cycles (not decided)", line, nontrivial=False)
                continue
            bad = None
            for cyc in cycles:
                why = cycle_is_state_free(f, cyc, quiet)
                if why:
                    bad = (cyc, why)
                    break
            if bad is None:
                rule.ok(f, lk, "every cycle through the header stores to memory, calls a function with effects, or carries a local to the next iteration (%d cycles)" % len(cycles), line)
            elif (f.name, lk) in exceptions:
                rule.exc(f, lk, exceptions[(f.name, lk)], line)
            else:
                from .. import guards
                cyc, why = bad
                rule.bad(f, lk, "this loop has a cycle on which %s: every iteration computes the same values and takes the same branches, so once "
                                "taken twice it never ends" % why, line,
                         witness={"cycle_blocks": list(cyc), "cycle_lines": [x["line"] for x in guards.path_lines(f, list(cyc))]})
    return n


def rule_for(prog, rid, what, scope, floor, cfg=None):
    from ..engine import Rule
    r = Rule(rid, "no loop of %s has a state-free cycle (a cycle that stores nothing, calls nothing with effects and carries no local): such a cycle never ends" % what, floor=floor)
    state_free_rule(prog, r, scope)
    if cfg is not None:
        for i in r.insts:
            i.config = cfg
    return r
