"""R10.4 enum switches with an asserting default are exhaustive.

For every `switch` over an expression of enum type: each enumerator that has no `case` enters the default path.  The
default path is followed with the switched value bound to that enumerator's constant; every branch condition on the
way must fold to a constant under that binding (otherwise the path is not decided and nothing is reported).  If the
folded path reaches assert's failure arm or abort(), that enumerator makes the program die: a finite, exact
evaluation per (switch, enumerator)."""
from ..engine import Rule
from ..model import strip_casts, is_var, tree_text, walk
from ..assume import eval_under
from .. import guards


def run(prog, floor=4):
    rule = Rule("R10.4", "no enumerator without a case can reach an assertion failure through the default path of an enum switch", floor=floor)
    for f in sorted(prog.funcs.values(), key=lambda f: f.key):
        for b in f.blocks.values():
            t = b.term
            if not t or t["kind"] != "SwitchStmt" or not t.get("enum") or "cond" not in t:
                continue
            en = prog.enums.get(t["enum"])
            if not en:
                continue
            subj_tree = strip_casts(t["cond"]["tree"])
            if not (is_var(subj_tree) or (isinstance(subj_tree, list) and subj_tree and subj_tree[0] == "member")):
                continue
            stext = tree_text(subj_tree)

            def subj(x, stext=stext):
                return isinstance(x, list) and x and x[0] in ("var", "member") and tree_text(x) == stext
            cases = set()
            default = None
            for s in b.succs():
                lab = f.blocks[s].label or {}
                if lab.get("kind") == "case":
                    lo, hi = lab.get("value"), lab.get("value_hi", lab.get("value"))
                    if lo is not None:
                        cases |= set(range(lo, (hi if hi is not None else lo) + 1)) if hi is not None and hi - lo < 4096 else {lo}
                elif lab.get("kind") == "default":
                    default = s
            # fall-through case labels inside the switch body are successors of the switch block too, so `cases` is complete
            if default is None:
                continue    # without a default label uncovered enumerators simply skip the switch
            # does the default path contain an assert/abort at all?
            reach = f.reachable_from([default])
            if not any(e["k"] == "call" and e.get("callee") in ("__assert_fail", "abort") for x in reach for e in f.blocks[x].ev):
                continue
            key_base = "switch(%s)" % stext
            missing = [(n, v) for n, v in en["enumerators"] if v not in cases]
            nbad = 0
            for name, val in missing:
                # fold the default path under subject == val
                cur = default
                seen = set()
                verdict = "undecided"
                path = [b.id]
                while cur is not None and cur not in seen:
                    seen.add(cur)
                    path.append(cur)
                    blk = f.blocks[cur]
                    if any(e["k"] == "call" and e.get("callee") in ("__assert_fail", "abort") for e in blk.ev):
                        verdict = "abort"
                        break
                    if any(e["k"] == "return" for e in blk.ev):
                        verdict = "returns"
                        break
                    if any(e["k"] == "assign" and e.get("lhs") == stext for e in blk.ev):
                        break
                    succs = [s for s in blk.succ]
                    live = [s for s in succs if s is not None]
                    if len(live) <= 1 or not blk.term or "cond" not in blk.term:
                        cur = live[0] if live else None
                        if cur is None:
                            verdict = "ends"
                        continue
                    if blk.term["kind"] == "SwitchStmt":
                        break
                    v = eval_under(blk.term["cond"]["tree"], subj, val)
                    if v is None:
                        break
                    cur = blk.succ[0] if v else blk.succ[1]
                    if cur is None:
                        verdict = "ends"
                if verdict == "abort":
                    nbad += 1
                    rule.bad(f, "%s:%s" % (key_base, name), "enumerator %s (= %d) has no case; the default path folds to the failing "
                             "assertion/abort: this value kills the program" % (name, val), t["line"],
                             witness={"path": guards.path_lines(f, path), "enumerator": name, "value": val})
            rule.add(f.relfile, f.name, key_base, "pass" if nbad == 0 else "info",
                     "%d enumerators of %s without a case; %d of them fold to the assertion" % (len(missing), t["enum"], nbad), t["line"])
    return rule
