"""C15 bounded stack and heap while decoding — R15.1 every type-directed decoding cycle checks the stack,
R15.2 entry points install the default limit, R15.3 the check's result is used, R15.4 allocation bounded by input."""
from ..engine import Rule, load_tables
from ..extract import AnalysisBroken
from ..model import walk, strip_casts, is_var, const_of, tree_text, tree_vars, addr_roots
from ..retabs import cond_polarity, dec_return
from . import common

EXPLANATION = (
    "R15.1: strongly connected components of the resolved call graph (op-table slot resolution) that contain a "
    "function stored in a *_decoder slot are the type-directed decoding recursions. A recursive call site is guarded "
    "when a call to the stack checker (ASN__STACK_OVERFLOW_CHECK, or a function every path of which passes such a "
    "check, e.g. ber_check_tags) dominates it and the checker's failure edge cannot reach the site. The graph of "
    "unguarded recursive edges must be acyclic: any cycle in it is a recursion whose depth is controlled by the input "
    "and never compared with the stack limit. R15.2: in each decode entry point, on the edge where the caller's "
    "context is NULL a local context receives a non-zero max_stack_size and its address is what is passed on; on the "
    "edge where the caller's limit is non-zero the context is copied to the local (the check measures distance from "
    "the context object, which must live on this stack). R15.3: a discarded checker result is reported when it is the "
    "only guard of a cycle. R15.4: allocations sized by a decoded length are dominated by a comparison of that length "
    "with the remaining input; input-counted element loops have a failing exit for zero-width elements.")
NOT_DECIDED = ("the numeric adequacy of the default limit; heap proportionality as a number; recursion inside "
               "generated code (there is none: generated code holds only tables)")
ASSUMPTIONS = ["X.680 tag distinctness (enforced by the compiler, C11) bounds untagged-CHOICE nesting by the type definition"]

BASE_CHECKER = "ASN__STACK_OVERFLOW_CHECK"
OK_USES = ("cond", "compared", "assigned", "init", "switch", "returned", "member", "operand", "compound_assigned")


def subject_is_call(cid):
    def pred(t):
        return isinstance(t, list) and t and t[0] in ("call", "icall") and t[1] == cid
    return pred


def subject_is_var_field(vid, field=None):
    def pred(t):
        if field is None:
            return is_var(t, vid)
        return isinstance(t, list) and t and t[0] == "member" and t[2] == field and is_var(t[1], vid)
    return pred


def failing_successors(f, cb, ce, fail_fact, subject_kind):
    """Blocks entered when the checked call (event ce in block cb) reported failure.
    subject_kind: 'int' (non-zero = failure) or 'rval' (code != RC_OK = failure).
    Returns (list of (test block id, failing successor id), tested?)"""
    out = []
    use = ce.get("use")
    if use in ("cond", "compared", "switch", "member") and cb.term and "cond" in cb.term and use != "switch":
        # tested in place: the call is part of this block's terminator condition
        if any(n[0] in ("call", "icall") and n[1] == ce["id"] for n in walk(cb.term["cond"]["tree"])):
            if subject_kind == "int":
                pol = cond_polarity(cb.term["cond"]["tree"], subject_is_call(ce["id"]))
            else:
                def subj(t):
                    return isinstance(t, list) and t and t[0] == "member" and t[2] == "code" and \
                        isinstance(strip_casts(t[1]), list) and strip_casts(t[1])[0] in ("call", "icall") and strip_casts(t[1])[1] == ce["id"]
                pol = cond_polarity(cb.term["cond"]["tree"], subj)
            if pol:
                for idx, edge in ((0, "true"), (1, "false")):
                    if fail_fact(pol[edge]) and idx < len(cb.succ) and cb.succ[idx] is not None:
                        out.append((cb.id, cb.succ[idx]))
            return out, True
    vid = None
    if use in ("assigned", "init", "compound_assigned"):
        ui = ce.get("useinfo", {})
        if ui.get("var"):
            vid = ui["var"]
        elif ui.get("lhs_tree") and is_var(ui["lhs_tree"]):
            vid = strip_casts(ui["lhs_tree"])[1]
    if vid is None:
        return out, False
    tested = False
    reach = f.reachable_from([cb.id])
    for bid in reach:
        b = f.blocks[bid]
        if not b.term or "cond" not in b.term:
            continue
        tree = b.term["cond"]["tree"]
        if b.term["kind"] == "SwitchStmt":
            t = strip_casts(tree)
            ok = (subject_kind == "rval" and isinstance(t, list) and t[0] == "member" and t[2] == "code" and is_var(t[1], vid)) \
                or (subject_kind == "int" and is_var(t, vid))
            if ok:
                tested = True
                for s in b.succs():
                    lab = f.blocks[s].label or {}
                    if lab.get("kind") == "case" and lab.get("value") == 0:
                        continue
                    out.append((bid, s))
            continue
        pol = cond_polarity(tree, subject_is_var_field(vid, "code" if subject_kind == "rval" else None))
        if pol:
            tested = True
            for idx, edge in ((0, "true"), (1, "false")):
                if fail_fact(pol[edge]) and idx < len(b.succ) and b.succ[idx] is not None:
                    out.append((bid, b.succ[idx]))
    return out, tested


def nonzero_fact(facts):
    return "nonzero" in facts or "neg" in facts or "pos" in facts or any(isinstance(x, tuple) and x[0] == "ne" and x[1] == 0 for x in facts)


def resume_edges(f):
    """Edges (block, succ index) of the restart dispatch: `switch(ctx->phase)` case k != 0, where ctx is the decoder's
    saved asn_struct_ctx_t.  A call that enters through them is the continuation of an earlier call on the same
    structure which entered through case 0 at the same stack depth, so they are not fresh recursion entries."""
    out = set()
    for b in f.blocks.values():
        if not b.term or b.term.get("kind") != "SwitchStmt" or "cond" not in b.term:
            continue
        t = strip_casts(b.term["cond"]["tree"])
        if isinstance(t, list) and t[0] == "member" and t[2] == "phase" and "asn_struct_ctx" in str(t[4]):
            for idx, s in enumerate(b.succ):
                if s is None:
                    continue
                lab = f.blocks[s].label or {}
                if lab.get("kind") == "case" and lab.get("value") not in (0, None):
                    out.add((b.id, idx))
    return out


def dominates_modulo(f, cb, ci, site_block, site_idx, skip_edges):
    """every path entry -> site (not using skip_edges) passes the call event (cb, ci)"""
    if cb.id == site_block.id and ci < site_idx:
        return True
    seen = set()
    st = [f.entry]
    while st:
        x = st.pop()
        if x in seen:
            continue
        seen.add(x)
        if x == cb.id:
            continue
        if x == site_block.id:
            return False
        b = f.blocks[x]
        for idx, s in enumerate(b.succ):
            if s is None or (x, idx) in skip_edges:
                continue
            st.append(s)
    return True


def call_guards_site(f, cb, ci, ce, site_block, site_idx, subject_kind):
    """True if the checker call (cb,ci,ce) dominates the site (modulo resume edges) and its failure edge cannot
    reach the site."""
    if cb.id == site_block.id and ci >= site_idx:
        return False
    if not dominates_modulo(f, cb, ci, site_block, site_idx, resume_edges(f)):
        return False
    if ce.get("use") in ("discarded", "voidcast", "unknown"):
        return False
    fails, tested = failing_successors(f, cb, ce, nonzero_fact, subject_kind)
    if not tested or not fails:
        return False
    for tb, fs in fails:
        # from the failing successor the site must be unreachable (without coming back through the checker call)
        r = f.reachable_from([fs], stop=lambda x: x == cb.id)
        if site_block.id in r and not (site_block.id == cb.id):
            return False
    return True


def derived_checkers(prog):
    """functions every return of which is dominated by a used stack-checker call: name -> subject kind"""
    chk = {BASE_CHECKER: "int"}
    changed = True
    while changed:
        changed = False
        for f in prog.funcs.values():
            if f.name in chk or f.entry is None:
                continue
            dom = f.dominators()
            cands = [(b, i, e) for b, i, e in f.calls() if e.get("callee") in chk and e.get("use") not in ("discarded", "voidcast")]
            for b, i, e in cands:
                rets = [rb for rb, ri, re in f.returns() if rb.id in dom]      # blocks the front end pruned as unreachable (constant conditions in macros) do not count
                if not rets:
                    continue
                if all(rb.id in dom and (b.id in dom[rb.id]) for rb in rets):
                    # and the failing edge leads only to failing returns
                    fails, tested = failing_successors(f, b, e, nonzero_fact, chk[e["callee"]])
                    if not tested or not fails:
                        continue
                    kind = "rval" if "asn_dec_rval" in f.ret_type else "int"
                    chk[f.name] = kind
                    changed = True
                    break
    return chk


def recursion_rule(prog, roots_desc, slot_keys, rule, exceptions, scope=None, guard_fn=None, what="stack check"):
    """shared by C15/C20/C10: cycles through `slot_keys` must be broken by guarded edges.
    guard_fn(f, site_block, site_idx, event) -> name of the guard or None (default: dominating stack-checker call)."""
    cg = prog.callgraph()
    chk = derived_checkers(prog) if guard_fn is None else {}
    if guard_fn is None:
        rule.note("stack-checking functions: %s" % sorted(chk))
    comps = [c for c in cg.sccs(scope) if slot_keys is None or set(c) & slot_keys]
    unguarded_edges = {}
    total_sites = 0
    for comp in comps:
        cs = set(comp)
        for key in comp:
            f = prog.funcs[key]
            for b, i, e, targets in cg.sites[key]:
                tg = [t for t in targets if t in cs]
                if not tg:
                    continue
                total_sites += 1
                guarded_by = None
                if guard_fn is not None:
                    guarded_by = guard_fn(f, b, i, e)
                else:
                    for cb, ci, ce in f.calls():
                        cal = ce.get("callee")
                        if cal in chk and call_guards_site(f, cb, ci, ce, b, i, chk[cal]):
                            guarded_by = cal
                            break
                sk = e.get("callee") or ("->" + e.get("slot", "") if e.get("slot") else e.get("indirect", "?"))
                if guarded_by:
                    rule.ok(f, sk, "recursive call guarded by %s" % guarded_by, e["line"])
                else:
                    for t in tg:
                        unguarded_edges.setdefault(key, {}).setdefault(t, []).append((sk, e["line"]))
    # cycles in the graph of unguarded edges
    nodes = set(unguarded_edges) | {t for d in unguarded_edges.values() for t in d}

    class G:
        edges = {k: set(v) for k, v in unguarded_edges.items()}
        prog_ = prog
    import types
    sub = types.SimpleNamespace(edges=G.edges, prog=prog)
    from ..model import CallGraph
    cyc = CallGraph.sccs(sub, nodes)
    in_cycle = set()
    for c in cyc:
        in_cycle |= set(c)
    for key in sorted(unguarded_edges):
        f = prog.funcs[key]
        for t, sites in sorted(unguarded_edges[key].items()):
            for sk, line in sites:
                cyc_of = next((c for c in cyc if key in c and t in c), None)
                if cyc_of:
                    ek = (rule.id, f.name, sk)
                    if ek in exceptions:
                        rule.exc(f, sk, exceptions[ek], line)
                    else:
                        rule.bad(f, sk, "recursive call to %s with no %s on the cycle {%s}" % (
                            t, what, ", ".join(cyc_of)), line, witness={"cycle": cyc_of})
                else:
                    rule.ok(f, sk, "unguarded call to %s, but every cycle through it passes a guarded edge" % t, line)
    rule.note("%s: %d recursive components, %d recursive call sites, %d unguarded cycles" % (roots_desc, len(comps), total_sites, len(cyc)))
    return comps, cyc


def r15_2(prog, rule, tab):
    for name in [x["function"] for x in tab["entry_points"]]:
        f = prog.func(name)
        if f is None:
            if prog.info.get("config", "default") == "default":
                raise AnalysisBroken("decode entry point %s no longer exists" % name)
            continue
        # the decoder dispatch: an op-slot call or a direct call of a function taking the context first
        ctxp = f.params[0]["id"] if f.params and "asn_codec_ctx" in f.params[0]["type"] else None
        if ctxp is None:
            raise AnalysisBroken("%s no longer takes a codec context as its first parameter" % name)
        dispatch = [(b, i, e) for b, i, e in f.calls() if e.get("args") and is_var(e["args"][0]["tree"], ctxp)
                    and (e.get("slot") or e.get("callee"))]
        if not dispatch:
            raise AnalysisBroken("%s: no call passing the codec context on" % name)
        # locals of type asn_codec_ctx_t
        locs = {e["id"] for b, i, e in f.events("decl") if "asn_codec_ctx_t" in e["type"] and "*" not in e["type"]}
        # test of the parameter against NULL
        null_edges = []
        nz_edges = []
        for b in f.blocks.values():
            if not b.term or "cond" not in b.term or b.term["kind"] not in ("IfStmt", "ConditionalOperator", "BinaryOperator"):
                continue
            pol = cond_polarity(b.term["cond"]["tree"], lambda t: is_var(t, ctxp))
            if pol:
                for idx, edge in ((0, "true"), (1, "false")):
                    if "zero" in pol[edge] and idx < len(b.succ) and b.succ[idx] is not None:
                        null_edges.append((b.id, idx))

            def is_limit(t):
                return isinstance(t, list) and t and t[0] == "member" and t[2] == "max_stack_size" and is_var(t[1], ctxp)
            pol = cond_polarity(b.term["cond"]["tree"], is_limit)
            if pol:
                for idx, edge in ((0, "true"), (1, "false")):
                    if "nonzero" in pol[edge] and idx < len(b.succ) and b.succ[idx] is not None:
                        nz_edges.append((b.id, idx))
        if not null_edges:
            rule.bad(f, "null-context", "no test of the context parameter against NULL: a NULL context reaches the decoders with no stack limit", f.line)
            continue

        def ev_sets_limit(e):
            return e["k"] == "assign" and e.get("field") == "max_stack_size" and e.get("base_id") in locs and \
                not e.get("deref") and e.get("op") == "=" and (const_of(e["rhs"]["tree"]) or 0) > 0

        def ev_points_local(e):
            return e["k"] == "assign" and e.get("base_id") == ctxp and e.get("lhs") == e.get("base") and \
                e.get("op") == "=" and (addr_roots(e["rhs"]["tree"]) & locs)

        def ev_copies(e):
            if e["k"] == "assign" and e.get("base_id") in locs and e.get("lhs") == e.get("base") and e.get("op") == "=":
                t = strip_casts(e["rhs"]["tree"])
                return isinstance(t, list) and t[0] == "un" and t[1] == "*" and is_var(t[2], ctxp)
            return False
        for (db, di, de) in dispatch:
            dk = de.get("callee") or "->" + de.get("slot", "?")
            for (tb, idx) in null_edges:
                start = f.blocks[tb].succ[idx]
                for nm, pred in (("limit", ev_sets_limit), ("address", ev_points_local)):
                    if must_pass(f, start, db.id, di, pred):
                        rule.ok(f, "null-context:%s:%s" % (nm, dk), "on the NULL-context edge every path to the dispatch %s" % (
                            "sets a non-zero max_stack_size in a local context" if nm == "limit" else "points the context at the local"), de["line"])
                    else:
                        rule.bad(f, "null-context:%s:%s" % (nm, dk), "a path from the NULL-context edge reaches the decoder dispatch without %s" % (
                            "a non-zero max_stack_size being installed" if nm == "limit" else "the context pointer being set to the local (stack) context"), de["line"])
            if not nz_edges:
                rule.bad(f, "caller-limit:%s" % dk, "the caller's max_stack_size is never tested: a caller-supplied limit is not relocated to this stack", de["line"])
            for (tb, idx) in nz_edges:
                start = f.blocks[tb].succ[idx]
                for nm, pred in (("copy", ev_copies), ("address", ev_points_local)):
                    if must_pass(f, start, db.id, di, pred):
                        rule.ok(f, "caller-limit:%s:%s" % (nm, dk), "caller-supplied limit is copied into the local context and the local's address is passed on", de["line"])
                    else:
                        rule.bad(f, "caller-limit:%s:%s" % (nm, dk), "with a caller-supplied limit a path reaches the dispatch without %s" % (
                            "copying the context to the local" if nm == "copy" else "passing the local's address"), de["line"])


def must_pass(f, start, target, target_idx, pred):
    """every path from block `start` to event (target,target_idx) contains an event satisfying pred"""
    st = [start]
    seen = set()
    while st:
        x = st.pop()
        if x in seen:
            continue
        seen.add(x)
        b = f.blocks[x]
        evs = b.ev[:target_idx] if x == target else b.ev
        if any(pred(e) for e in evs):
            continue
        if x == target:
            return False
        st.extend(b.succs())
    return True


def run_config(prog, tab, cfg):
    r1 = Rule("R15.1", "every type-directed decoding recursion passes a stack-limit check on each cycle", floor=20)
    r2 = Rule("R15.2", "decode entry points install a non-zero default stack limit in a context object on their own stack", floor=16)
    r3 = Rule("R15.3", "the stack checker's result is used", floor=8)
    exc = {(x["rule"], x["function"], x["key"]): x["reason"] for x in tab["exceptions"]}
    slot_keys = common.slot_functions(prog, common.DECODER_SLOTS)
    cg = prog.callgraph()
    scope = cg.reachable(slot_keys | {prog.func(x["function"]).key for x in tab["entry_points"] if prog.func(x["function"])})
    comps, cyc = recursion_rule(prog, "functions reachable from decoder slots and decode entry points", None, r1, exc, scope)
    r15_2(prog, r2, tab)
    chk = derived_checkers(prog)
    for f in prog.funcs.values():
        for b, i, e in f.calls():
            if e.get("callee") == BASE_CHECKER:
                if e.get("use") in ("discarded", "voidcast"):
                    # is it the only guard of some cycle? R15.1 already treats discarded checks as no guard, so a
                    # cycle relying on it is reported there; here it is informational.
                    r3.add(f.relfile, f.name, BASE_CHECKER, "info", "result discarded; not counted as a guard by R15.1", e["line"])
                else:
                    r3.ok(f, BASE_CHECKER, "result used (%s)" % e.get("use"), e["line"])
    r5 = Rule("R15.5", "the decode entry points (which install a fresh stack-limit context) are never re-entered from inside a decoder", floor=4)
    eps = {prog.func(x["function"]).key: x["function"] for x in tab["entry_points"] if prog.func(x["function"])}
    dscope = cg.reachable(slot_keys)
    for epk, epn in sorted(eps.items()):
        callers = [k for k in sorted(dscope) if epk in cg.edges.get(k, ())]
        if not callers:
            r5.ok(prog.funcs[epk], "callers", "not called from any function reachable from a decoder slot", prog.funcs[epk].line)
        for k in callers:
            f = prog.funcs[k]
            line = next((e["line"] for b, i, e, tg in cg.sites[k] if epk in tg), f.line)
            r5.bad(f, epn, "%s is reachable from a decoder slot and calls the entry point %s, which copies the codec context into its own frame: "
                           "the stack budget starts again at every nesting level and the limit never triggers" % (f.name, epn), line,
                   witness={"call_path": cg.path(sorted(slot_keys), k)})
    # R15.6: the stack checker takes a NULL context for `no limit`.  The only functions that may be given a NULL codec
    # context are the entry points, which replace it by a context carrying the default limit.
    r6 = Rule("R15.6", "a codec context parameter is given a NULL constant only at calls of the decode entry points (which install the default limit)", floor=60)
    epnames = {x["function"] for x in tab["entry_points"]}
    for f in sorted(prog.funcs.values(), key=lambda f: f.key):
        n = 0
        for b, i, e in f.calls():
            tgt = prog.func(e["callee"]) if e.get("callee") else None
            for ai, a in enumerate(e.get("args", [])):
                if tgt is not None:
                    if ai >= len(tgt.params) or "asn_codec_ctx" not in tgt.params[ai]["type"]:
                        continue
                elif not (e.get("slot") in common.DECODER_SLOTS and ai == 0):
                    continue
                n += 1
                cal = e.get("callee") or "->" + e["slot"]
                key = "%s(ctx)#%d" % (cal, n)
                if const_of(a.get("tree")) != 0:
                    r6.ok(f, key, "the context handed on is `%s`" % tree_text(a.get("tree")), e["line"], nontrivial=False)
                elif cal in epnames:
                    r6.ok(f, key, "NULL given to an entry point, which installs the default stack limit", e["line"])
                else:
                    r6.bad(f, key, "%s is called with a NULL codec context: its stack check (ASN__STACK_OVERFLOW_CHECK) and every check below "
                                   "it is switched off, so nesting in the input is limited by the C stack only" % cal, e["line"])
    for r in (r1, r2, r3, r5, r6):
        for i in r.insts:
            i.config = cfg
    return [r1, r2, r3, r5, r6]


def run(ctx):
    tab = load_tables("c15")
    rules = run_config(ctx.prog("S"), tab, "default")
    from . import c15_alloc
    rules += c15_alloc.run_config(ctx.prog("S"), tab, "default")
    return rules


def thorough(ctx):
    tab = load_tables("c15")
    out = []
    for cfg in ("noper", "nooer"):
        rs = run_config(ctx.prog("S", cfg), tab, cfg)
        for r in rs:
            r.floor = 0
        out += rs
    from .. import selftest
    import sys
    out += selftest.run_mutants("C15", sys.modules[__name__])
    return out
