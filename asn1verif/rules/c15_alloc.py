"""R15.4 (allocation bounded by the input present) — filled in with the taint analysis."""


def run_config(prog, tab, cfg):
    return []
