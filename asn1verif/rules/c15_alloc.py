"""R15.4 heap proportional to the input: (a) input-counted element loops refuse zero-width elements, (b) allocations
sized by a decoded length are bounded by the input present."""
from ..engine import Rule
from ..extract import AnalysisBroken
from ..model import walk, strip_casts, is_var, const_of, tree_text
from ..retabs import cond_polarity, dec_returns
from .. import guards
from . import common


def zero_width_guards(prog, rule, tab):
    for name in tab["element_loops"]:
        f = prog.require(name)
        rets = {(b.id, i): pairs for b, i, e, pairs in dec_returns(f)}
        loops = f.loops()
        # member decode calls inside a loop
        sites = []
        for b, i, e in f.calls():
            if e.get("slot") in common.DECODER_SLOTS and "asn_TYPE_operation" in e.get("slot_struct", ""):
                if any(b.id in body for h, body in loops):
                    sites.append((b, i, e))
        if not sites:
            raise AnalysisBroken("%s: no member decoder call inside a loop" % name)
        for b, i, e in sites:
            key = "zero-width:->%s" % e["slot"]
            # blocks testing `<rv>.consumed == 0`
            found = None
            for tb in f.blocks.values():
                if not tb.term or "cond" not in tb.term or len(tb.succ) < 2:
                    continue
                def subj(t):
                    return isinstance(t, list) and t and t[0] == "member" and t[2] == "consumed"
                pol = cond_polarity(tb.term["cond"]["tree"], subj)
                if not pol or "zero" not in pol["true"]:
                    continue
                # follow the true-edge chain of further conjuncts to a failing return
                cur = tb.succ[0]
                extra = []
                ok = None
                hops = 0
                while cur is not None and hops < 8:
                    hops += 1
                    blk = f.blocks[cur]
                    r_here = [(j, x) for j, x in enumerate(blk.ev) if x["k"] == "return"]
                    if r_here:
                        codes = {c for c, _k in rets.get((cur, r_here[0][0]), ())}
                        ok = codes == {"FAIL"}
                        break
                    live = blk.succs()
                    if blk.term and "cond" in blk.term and len(blk.succ) >= 2 and len(live) >= 2 and const_of(blk.term["cond"]["tree"]) is None:
                        extra.append(blk.term["cond"]["tree"])
                        cur = blk.succ[0]
                    else:
                        ss = blk.succs()
                        cur = ss[0] if len(ss) == 1 else None
                if ok:
                    found = (tb, extra)
                    break
            if found is None:
                rule.bad(f, key, "no failing exit conditioned on the element having consumed nothing: a count taken from the input times a zero-width "
                                 "element type allocates without bound (decompression bomb)", e["line"])
                continue
            tb, extra = found
            badc = None
            for c in extra:
                t = strip_casts(c)
                allowed = False
                if isinstance(t, list) and t[0] == "bin" and t[1] in (">", ">=") and const_of(t[3]) is not None:
                    allowed = True       # element-count threshold
                if isinstance(t, list) and t[0] == "bin" and t[1] == "==" and all(
                        isinstance(strip_casts(x), list) and strip_casts(x)[0] in ("var",) for x in (t[2], t[3])):
                    allowed = True       # cursor not advanced: base_ptr == ptr
                if not allowed:
                    badc = c
            if badc is None:
                rule.ok(f, key, "zero-width elements end in RC_FAIL once the count threshold is passed (conjuncts: %s)" % ", ".join(tree_text(x) for x in extra), tb.term.get("line"))
            else:
                rule.bad(f, key, "the zero-width guard is weakened by the extra condition `%s`: when it is false the element loop allocates "
                                 "without consuming input" % tree_text(badc), tb.term.get("line"))


def run_config(prog, tab, cfg):
    r = Rule("R15.4", "decoders hold heap proportional to the input: zero-width elements are refused in input-counted loops; "
                      "allocations sized by a decoded length are bounded by the input present", floor=2 if cfg == "default" else 0)
    tab2 = dict(tab)
    loops = [n for n in tab["element_loops"] if prog.func(n) is not None]
    tab2["element_loops"] = loops
    zero_width_guards(prog, r, tab2)
    from . import c15_taint
    c15_taint.alloc_rule(prog, r, tab)
    for i in r.insts:
        i.config = cfg
    return [r]
