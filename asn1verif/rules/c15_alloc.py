"""R15.4 heap proportional to the input: (a) input-counted element loops refuse zero-width elements, (b) allocations
sized by a decoded length are bounded by the input present."""
from ..engine import Rule
from ..extract import AnalysisBroken
from ..model import walk, strip_casts, is_var, const_of, tree_text
from ..retabs import cond_polarity, dec_returns
from .. import guards
from . import common


def zero_width_guards(prog, rule, tab):
    for name in tab["element_loops"]:
        f = prog.require(name)
        rets = {(b.id, i): pairs for b, i, e, pairs in dec_returns(f)}
        loops = f.loops()
        # member decode calls inside a loop
        sites = []
        for b, i, e in f.calls():
            if e.get("slot") in common.DECODER_SLOTS and "asn_TYPE_operation" in e.get("slot_struct", ""):
                if any(b.id in body for h, body in loops):
                    sites.append((b, i, e))
        if not sites:
            raise AnalysisBroken("%s: no member decoder call inside a loop" % name)
        for b, i, e in sites:
            key = "zero-width:->%s" % e["slot"]
            # blocks testing `<rv>.consumed == 0`
            found = None
            for tb in f.blocks.values():
                if not tb.term or "cond" not in tb.term or len(tb.succ) < 2:
                    continue
                def subj(t):
                    return isinstance(t, list) and t and t[0] == "member" and t[2] == "consumed"
                pol = cond_polarity(tb.term["cond"]["tree"], subj)
                if not pol or "zero" not in pol["true"]:
                    continue
                # follow the true-edge chain of further conjuncts to a failing return
                cur = tb.succ[0]
                extra = []
                ok = None
                hops = 0
                while cur is not None and hops < 8:
                    hops += 1
                    blk = f.blocks[cur]
                    r_here = [(j, x) for j, x in enumerate(blk.ev) if x["k"] == "return"]
                    if r_here:
                        codes = {c for c, _k in rets.get((cur, r_here[0][0]), ())}
                        ok = codes == {"FAIL"}
                        break
                    live = blk.succs()
                    if blk.term and "cond" in blk.term and len(blk.succ) >= 2 and len(live) >= 2 and const_of(blk.term["cond"]["tree"]) is None:
                        extra.append(blk.term["cond"]["tree"])
                        cur = blk.succ[0]
                    else:
                        ss = blk.succs()
                        cur = ss[0] if len(ss) == 1 else None
                if ok:
                    found = (tb, extra)
                    break
            if found is None:
                rule.bad(f, key, "no failing exit conditioned on the element having consumed nothing: a count taken from the input times a zero-width "
                                 "element type allocates without bound (decompression bomb)", e["line"])
                continue
            tb, extra = found
            badc = None
            for c in extra:
                t = strip_casts(c)
                allowed = False
                if isinstance(t, list) and t[0] == "bin" and t[1] in (">", ">=") and const_of(t[3]) is not None:
                    allowed = True       # element-count threshold
                if isinstance(t, list) and t[0] == "bin" and t[1] == "==" and all(
                        isinstance(strip_casts(x), list) and strip_casts(x)[0] in ("var",) for x in (t[2], t[3])):
                    allowed = True       # cursor not advanced: base_ptr == ptr
                if not allowed:
                    badc = c
            if badc is None:
                rule.ok(f, key, "zero-width elements end in RC_FAIL once the count threshold is passed (conjuncts: %s)" % ", ".join(tree_text(x) for x in extra), tb.term.get("line"))
            else:
                rule.bad(f, key, "the zero-width guard is weakened by the extra condition `%s`: when it is false the element loop allocates "
                                 "without consuming input" % tree_text(badc), tb.term.get("line"))


def grow_rule(prog, cfg):
    """A buffer grows only when the demand exceeds its capacity.  For every realloc(buf, S): the capacity is S itself (if
    it is an lvalue) and every lvalue that S is copied into afterwards; the nearest `if` that decides whether the
    realloc is reached and that compares the capacity with something must have the capacity on the smaller side of
    the edge taken towards the realloc (`len + need > cap`, `cap - len <= need`, `count == size`).  With the operands
    exchanged the test is true from the first fragment on and the buffer is regrown geometrically on every call: the
    heap held is exponential in the number of fragments instead of linear in the input."""
    from ..model import strip_casts, is_var, tree_text, walk, const_of
    r = Rule("R15.7", "a realloc guarded by a comparison with the buffer's capacity is reached on the edge where the capacity is the smaller side", floor=4 if cfg == "default" else 0)
    for f in sorted(prog.funcs.values(), key=lambda f: f.key):
        n = 0
        for b, i, e in f.calls():
            if e.get("callee") != "realloc" or len(e.get("args", [])) != 2:
                continue
            st = strip_casts(e["args"][1]["tree"])
            caps = set()
            svar = None
            if isinstance(st, list) and st and st[0] in ("var", "member"):
                caps.add(tree_text(st))
                if st[0] == "var":
                    svar = st[1]
            if svar is not None:
                for b2, i2, d in f.events("assign"):
                    if d.get("op") == "=" and "rhs" in d and is_var(d["rhs"]["tree"], svar) and d.get("lhs_tree") is not None:
                        caps.add(tree_text(strip_casts(d["lhs_tree"])))
            if not caps:
                continue
            loops = f.loops()
            # walk the deciding branches from the nearest outwards
            dom = f.dominators()
            found = None
            for tb in sorted((f.blocks[x] for x in dom.get(b.id, ()) if x != b.id), key=lambda x: -len(dom[x.id])):
                if not tb.term or "cond" not in tb.term or len(tb.succ) < 2 or None in tb.succ[:2]:
                    continue
                # the condition of a loop that does not contain the realloc (`do new <<= 1; while(need >= new)`) asks
                # whether the *new* capacity suffices: the opposite question
                if any(tb.id in body and b.id not in body for h, body in loops):
                    continue
                c = strip_casts(tb.term["cond"].get("full_tree") or tb.term["cond"]["tree"])
                cmps = [x for x in walk(c) if isinstance(x, list) and x and x[0] == "bin" and x[1] in ("<", "<=", ">", ">=", "==")]
                hit = None
                for x in cmps:
                    lt, rt = tree_text(strip_casts(x[2])), tree_text(strip_casts(x[3]))
                    lcap = any(tree_text(y) in caps for y in walk(x[2]) if isinstance(y, list) and y and y[0] in ("var", "member"))
                    rcap = any(tree_text(y) in caps for y in walk(x[3]) if isinstance(y, list) and y and y[0] in ("var", "member"))
                    if const_of(x[2]) is not None or const_of(x[3]) is not None:
                        continue            # an overflow or emptiness test, not a comparison with the demand
                    if lcap != rcap:
                        hit = (x, lcap)
                        break
                if hit is None:
                    continue
                # which edge leads to the realloc
                t_reach = b.id in f.reachable_from([tb.succ[0]], stop=lambda bid: bid == tb.id) or tb.succ[0] == b.id
                f_reach = b.id in f.reachable_from([tb.succ[1]], stop=lambda bid: bid == tb.id) or tb.succ[1] == b.id
                if t_reach == f_reach:
                    continue
                found = (tb, hit, t_reach)
                break
            if found is None:
                continue
            tb, (x, lcap), on_true = found
            n += 1
            key = "realloc(%s)#%d" % (tree_text(e["args"][0]["tree"]), n)
            op = x[1]
            if op == "==":
                r.ok(f, key, "regrown when the count has reached the capacity (`%s`)" % tree_text(x), e["line"])
                continue
            # cap side smaller when the condition holds?
            cap_smaller_if_true = (lcap and op in ("<", "<=")) or ((not lcap) and op in (">", ">="))
            # a subtraction on the capacity side (`cap - len <= need`) keeps the orientation; nothing else to normalise
            if cap_smaller_if_true == on_true:
                r.ok(f, key, "reached on the edge of `%s` where the capacity is the smaller side" % tree_text(x), e["line"])
            else:
                r.bad(f, key, "the realloc is reached when `%s` is %s, i.e. when the capacity (%s) is the *larger* side: the buffer is regrown although "
                              "it is big enough (on every fragment, geometrically), and not when it is too small" % (
                                  tree_text(x), "true" if on_true else "false", ", ".join(sorted(caps))), e["line"])
    for i in r.insts:
        i.config = cfg
    return r


def run_config(prog, tab, cfg):
    r = Rule("R15.4", "decoders hold heap proportional to the input: zero-width elements are refused in input-counted loops; "
                      "allocations sized by a decoded length are bounded by the input present", floor=2 if cfg == "default" else 0)
    tab2 = dict(tab)
    loops = [n for n in tab["element_loops"] if prog.func(n) is not None]
    tab2["element_loops"] = loops
    zero_width_guards(prog, r, tab2)
    from . import c15_taint
    c15_taint.alloc_rule(prog, r, tab)
    for i in r.insts:
        i.config = cfg
    return [r, grow_rule(prog, cfg)]
