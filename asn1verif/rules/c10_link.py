"""R10.3 the shipped skeleton set links.

A model of the activation algorithm in libasn1compiler/asn1c_fdeps.c is applied to skeletons/file-dependencies.
For every codec configuration (-gen-PER / -gen-OER on or off) and every activation a generated header can trigger,
the emitted file set must be link-closed: each external symbol referenced by an emitted .c file is defined by an
emitted file (or is not a skeleton symbol at all: libc/libm).  The model's premises (section keywords, which sections
pre-activate, lone names self-activate, a chain activates on its first element) are re-derived from the facts
extracted from asn1c_fdeps.c on every run; if they no longer match, the analysis is broken (exit 2)."""
import collections
import os

from ..engine import Rule
from ..extract import AnalysisBroken
from .. import extract
from ..model import walk, strip_casts, is_var, const_of, tree_text

MODEL_SECTIONS = {"COMMON-FILES:": ("FDEP_COMMON_FILES", 1, None), "CONVERTER:": ("FDEP_CONVERTER", 1, None),
                  "CODEC-OER:": ("FDEP_CODEC_OER", 0, "A1C_GEN_OER"), "CODEC-PER:": ("FDEP_CODEC_PER", 0, "A1C_GEN_PER")}


def check_model(progK):
    """Re-derive the section table from asn1c_read_file_dependencies: strcmp(p, "<keyword>") == 0 -> assignments."""
    f = progK.require("asn1c_read_file_dependencies")
    act = progK.require("asn1c_activate_dependency")
    flat = progK.require("asn1c_deps_flatten")
    got = {}
    for b in f.blocks.values():
        if not b.term or "cond" not in b.term:
            continue
        t = strip_casts(b.term["cond"]["tree"])
        if not (isinstance(t, list) and t[0] == "bin" and t[1] == "==" and const_of(t[3]) == 0):
            continue
        c = strip_casts(t[2])
        if not (isinstance(c, list) and c[0] == "call" and c[2] == "strcmp"):
            continue
        lit = [a[1] for a in c[3] if isinstance(a, list) and a[0] == "str"]
        if not lit or b.succ[0] is None:
            continue
        nb = f.blocks[b.succ[0]]
        sec = actv = None
        for e in nb.ev:
            if e["k"] == "assign" and e.get("base") == "section":
                sec = tree_text(e["rhs"]["tree"])
            if e["k"] == "assign" and e.get("base") == "activate":
                actv = const_of(e["rhs"]["tree"])
        # flag guarding this branch (a preceding && operand testing arg->flags & A1C_GEN_x)
        flag = None
        for p in b.preds:
            pt = f.blocks[p].term
            if pt and "cond" in pt:
                for n in walk(pt["cond"]["tree"]):
                    if n[0] == "enum" and n[1].startswith("A1C_GEN_"):
                        flag = n[1]
        got[lit[0]] = (sec, actv, flag)
    if got != MODEL_SECTIONS:
        raise AnalysisBroken("file-dependencies section handling in asn1c_read_file_dependencies no longer matches the model: %s" % got)
    # chain activates on its first element and recurses over all its elements
    ok = False
    for b, i, e in act.calls():
        if e.get("callee") == "asn1c_activate_dependency":
            ok = True
    strcmp_first = any(e.get("callee") == "strcmp" and "deps[0]" in e.get("text", "") for b, i, e in act.calls())
    if not ok or not strcmp_first:
        raise AnalysisBroken("asn1c_activate_dependency no longer matches the model (first-element match + recursive activation)")
    # lone names self-activate: deps_count == 1 test followed by an activation call
    lone = any(b.term and "cond" in b.term and "deps_count == 1" in b.term["cond"].get("text", "") for b in f.blocks.values())
    if not lone:
        raise AnalysisBroken("asn1c_read_file_dependencies: the single-filename self-activation loop was not found")
    return True


def read_deps(path, gen_per, gen_oer):
    chains = []
    section = "FDEP_COMMON_FILES"
    activate = 0
    for line in open(path, errors="replace"):
        line = line.split("#")[0]
        toks = line.split()
        ch = {"files": [], "section": section, "active": activate}
        chains.append(ch)
        for p in toks:
            if ":" in p:
                m = MODEL_SECTIONS.get(p)
                if m and (m[2] is None or (m[2] == "A1C_GEN_OER" and gen_oer) or (m[2] == "A1C_GEN_PER" and gen_per)):
                    section, activate = m[0], m[1]
                else:
                    section, activate = "FDEP_IGNORE", 0
                break
            ch["files"].append(p)

    def act(name):
        for ch in chains:
            if not ch["active"] and ch["files"] and ch["files"][0] == name:
                ch["active"] = 1
                for fn in ch["files"]:
                    act(fn)
    for ch in list(chains):
        if not ch["active"] and len(ch["files"]) == 1:
            act(ch["files"][0])
    return chains, act


def emitted(chains):
    out = []
    for ch in chains:
        if ch["active"] and ch["section"] not in ("FDEP_CONVERTER", "FDEP_IGNORE"):
            for fn in ch["files"]:
                if fn not in out:
                    out.append(fn)
    return out


def symbols(prog):
    """per source file (basename): defined external symbols, referenced global symbols"""
    defs = collections.defaultdict(set)
    refs = collections.defaultdict(set)
    for f in prog.funcs.values():
        if not f.file.endswith(".c"):
            continue
        base = os.path.basename(f.file)
        if not f.static:
            defs[base].add(f.name)
        for b, i, e in f.events():
            trees = []
            if e["k"] == "call":
                if "callee" in e and not e.get("callee_static"):
                    refs[base].add(e["callee"])
                trees = [a.get("tree") for a in e.get("args", [])] + [e.get("callee_tree")]
            else:
                for k in ("rhs", "init", "expr", "cond", "index"):
                    if isinstance(e.get(k), dict):
                        trees.append(e[k].get("tree"))
                trees.append(e.get("lhs_tree"))
            for t in trees:
                for n in walk(t):
                    if n[0] == "fn":
                        refs[base].add(n[1])
                    elif n[0] == "var" and n[2] == "global":
                        refs[base].add(n[1])
        for b in f.blocks.values():
            if b.term and "cond" in b.term:
                for n in walk(b.term["cond"].get("full_tree") or b.term["cond"]["tree"]):
                    if n[0] == "fn":
                        refs[base].add(n[1])
                    elif n[0] == "var" and n[2] == "global":
                        refs[base].add(n[1])

    def scan(v, base):
        if isinstance(v, dict):
            for x in v.values():
                scan(x, base)
        elif isinstance(v, list):
            for x in v:
                scan(x, base)
        elif isinstance(v, str):
            if v.startswith("fn:"):
                refs[base].add(v[3:])
            elif v.startswith("obj:"):
                refs[base].add(v[4:])
            elif v.startswith("&") and not v.startswith("&expr:"):
                refs[base].add(v[1:])
    for g in prog.globals:
        if not g["file"].endswith(".c"):
            continue
        base = os.path.basename(g["file"])
        if g.get("definition") and not g.get("file_static") and not g.get("static_local"):
            defs[base].add(g["name"])
        if "init" in g:
            scan(g["init"], base)
    return defs, refs


def run_config(ctx, progK, rule, cfg, gen_per, gen_oer):
    prog = ctx.prog("S", cfg)
    defs, refs = symbols(prog)
    alldefs = set()
    for v in defs.values():
        alldefs |= v
    path = os.path.join(extract.get_repo(), "skeletons", "file-dependencies")
    chains, act = read_deps(path, gen_per, gen_oer)
    keys = sorted({ch["files"][0] for ch in chains if ch["files"] and not ch["active"] and ch["section"] != "FDEP_IGNORE"})
    missing_files = [fn for ch in chains for fn in ch["files"] if not os.path.exists(os.path.join(extract.get_repo(), "skeletons", fn))]
    for fn in sorted(set(missing_files)):
        rule.add("skeletons/file-dependencies", "", "file:%s" % fn, "violation", "file-dependencies names %s, which does not exist in skeletons/" % fn)
    bad = collections.defaultdict(set)
    nscen = 0
    for k in [None] + keys:
        chains, act = read_deps(path, gen_per, gen_oer)
        if k:
            act(k)
        em = [fn for fn in emitted(chains) if fn.endswith(".c")]
        nscen += 1
        d = set()
        for fn in em:
            d |= defs.get(fn, set())
        for fn in em:
            for r in refs.get(fn, ()):
                if r in alldefs and r not in d:
                    bad[(fn, r)].add(k or "<always-emitted set>")
    for k in [None] + keys:
        kk = k or "<always-emitted set>"
        bads = sorted((fn, r) for (fn, r), ks in bad.items() if kk in ks)
        if not bads:
            rule.add("skeletons/file-dependencies", "", "%s:%s" % (cfg, kk), "pass", "emitted set is link-closed", nontrivial=True)
    seen = set()
    for (fn, r), ks in sorted(bad.items()):
        owner = sorted(b for b, s in defs.items() if r in s)
        key = "%s->%s" % (fn, r)
        if key in seen:
            continue
        seen.add(key)
        i = rule.add("skeletons/file-dependencies", "", key, "violation",
                     "with %s, %s is emitted and references %s (defined in %s), which is not emitted when the generated code "
                     "activates %s: the generated library does not link" % (
                         cfg_text(gen_per, gen_oer), fn, r, ", ".join(owner), ", ".join(sorted(ks)[:4]) + (" ..." if len(ks) > 4 else "")),
                     witness={"scenarios": sorted(ks), "config": cfg})
        i.config = cfg
    rule.note("config %s: %d activation scenarios, %d chains, %d unresolved (file,symbol) pairs" % (cfg, nscen, len(chains), len(bad)))


def cfg_text(gen_per, gen_oer):
    return "-gen-PER %s, -gen-OER %s" % ("on" if gen_per else "off", "on" if gen_oer else "off")


CONFIGS = {"default": (1, 1), "noper": (0, 1), "nooer": (1, 0), "none": (0, 0)}


def run(ctx, configs=("default",)):
    rule = Rule("R10.3", "for every codec configuration and every activation a generated header can trigger, the skeleton "
                         "files shipped with the generated code are link-closed", floor=20)
    progK = ctx.prog("K")
    check_model(progK)
    for cfg in configs:
        run_config(ctx, progK, rule, cfg, *CONFIGS[cfg])
    return rule
