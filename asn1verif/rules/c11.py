"""C11 ambiguous or inconsistent specifications are rejected — R11.1 no fixer status is dropped, R11.2 every
uniqueness check is on the road to the exit code."""
import collections

from ..engine import Rule, load_tables
from ..extract import AnalysisBroken
from ..model import walk, strip_casts, is_var, const_of, tree_text
from .. import assume, guards

EXPLANATION = (
    "Status functions are derived: every function of libasn1fix returning int whose first parameter is arg_t* (the "
    "-1/0/1 convention merged by RET2RVAL), plus the callbacks handed to asn1f_recurse_expr. R11.1: for every call to "
    "one of them the result must be held (not discarded); assuming it is -1 (fatal), the path-sensitive exploration "
    "(which follows the value through RET2RVAL's copy `__ret`, its switch and the merge into the running status) must "
    "not reach a return of 0/1 or of an unrelated value. R11.2: for each checker named by the property (tag "
    "distinctness, unique identifiers, enum values, auto-tagging, type dereferencing) there is a call-graph path from "
    "asn1f_process (callbacks passed to asn1f_recurse_expr resolved) all of whose call sites satisfy R11.1, and "
    "asn1f_process maps a non-zero fatal count to -1 (R10.1 maps that to a non-zero exit without calling asn1_compile).")
NOT_DECIDED = "the verdict logic itself (that _asn1f_compare_tags / asn1f_fetch_tags_impl compute X.680 distinctness correctly)"
ASSUMPTIONS = ["fatal status is -1, warning 1, success 0 (asn1fix_internal.h RET2RVAL)"]


def is_fatal_call(e):
    """FATAL(...) expands to arg->eh(1, fmt, ...): the fixer's error handler with severity 1"""
    return e["k"] == "call" and e.get("slot") == "eh" and e.get("args") and e["args"][0].get("const") == 1


def status_functions(prog):
    """int f(arg_t *, ...) in libasn1fix whose negative result means `a fatal diagnostic was issued`: the function
    issues FATAL itself, or passes on / merges the status of such a function (least fixpoint)."""
    cand = {}
    for f in prog.funcs.values():
        if "libasn1fix/" not in f.relfile or f.ret_type != "int" or not f.params:
            continue
        if "arg_t *" in f.params[0]["type"] or "struct arg_s *" in f.params[0]["type"]:
            cand[f.key] = f
    out = {k for k, f in cand.items() if any(is_fatal_call(e) for b, i, e in f.events())}
    cg = prog.callgraph()
    changed = True
    while changed:
        changed = False
        for k, f in cand.items():
            if k in out:
                continue
            retvars = set()
            for b, i, e in f.returns():
                ex = e.get("expr")
                if ex:
                    retvars |= {n[1] for n in walk(ex["tree"]) if n[0] == "var"}
            for b, i, e, tg in cg.sites[k]:
                if not any(t in out for t in tg):
                    continue
                if e.get("use") not in ("discarded", "voidcast"):
                    out.add(k)
                    changed = True
                    break
    return out


def classify_for(f, nonzero_fails=False):
    """nonzero_fails: the function follows the `0 = fine, anything else = failed` convention (libasn1compiler); otherwise
    only a negative value is a failure (libasn1fix: 1 is a warning)."""
    ptr = f.ret_type.rstrip().endswith("*")

    def classify(b, i, e, env=None):
        env = dict(env or {})
        facts = env.pop(("__facts__", None), ())
        ex = e.get("expr")
        if not ex:
            return "success"
        if "const" in ex:
            if ptr:
                return "fail" if ex["const"] == 0 else "success"
            return "fail" if (ex["const"] < 0 or (nonzero_fails and ex["const"] != 0)) else "success"
        t = strip_casts(ex["tree"])
        if is_var(t):
            v = env.get((t[1], None))
            if isinstance(v, int):
                return "fail" if (v < 0 or (nonzero_fails and v != 0)) else "success"
            # what the branches taken on this path say about the variable
            if assume.fact_query(facts, ["bin", "<", t, ["int", 0]]) is True:
                return "fail"
            if nonzero_fails and assume.fact_query(facts, ["bin", "!=", t, ["int", 0]]) is True:
                return "fail"
            return "unknown:var"
        if isinstance(t, list) and t and t[0] == "cond":
            return "unknown:ternary"
        v = assume.eval_under(t, None, None, {k: x for k, x in env.items() if isinstance(x, int)})
        if v is not None:
            return "fail" if (v < 0 or (nonzero_fails and v != 0)) else "success"
        return "unknown:expr"
    return classify


def r11_1(prog, tab):
    r = Rule("R11.1", "a fatal status (-1) returned by a fixer function is never dropped: it reaches the caller's return value", floor=60)
    sf = status_functions(prog)
    cg = prog.callgraph()
    exc = {(x["function"], x["key"]): x["reason"] for x in tab.get("r11_1_exceptions", [])}
    siteok = {}
    for f in sorted(prog.funcs.values(), key=lambda f: f.key):
        if "libasn1fix/" not in f.relfile:
            continue
        classify = classify_for(f)
        for b, i, e, targets in cg.sites[f.key]:
            tg = [t for t in targets if t in sf]
            if not tg:
                continue
            key = e.get("callee") or ("cb:" + e.get("fp_var", "?").split("@")[0])
            ok = False
            use = e.get("use")
            if (f.name, key) in exc:
                r.exc(f, key, exc[(f.name, key)], e["line"])
                for t in tg:
                    siteok.setdefault((f.key, t, "callee" not in e), []).append(True)
                continue
            if use in ("discarded", "voidcast"):
                r.bad(f, key, "status of %s is discarded: a fatal diagnostic inside it does not fail the compilation" % key, e["line"])
            elif use == "returned":
                r.ok(f, key, "status returned to the caller", e["line"], nontrivial=False)
                ok = True
            elif f.ret_type == "void":
                r.bad(f, key, "status of %s consumed in a void function: it cannot propagate" % key, e["line"])
            else:
                subj = assume.subject_of_call(e, None)
                if subj is None:
                    r.bad(f, key, "status of %s is used as `%s` and never merged" % (key, use), e["line"])
                else:
                    hits = assume.explore(f, b, i, subj, -1, classify, origin_callid=e.get("id"), from_entry=False)
                    hits = [h for h in hits if h[0] != "abort"]
                    if hits and any(h[0] != "fail" for h in hits):
                        hits = assume.explore(f, b, i, subj, -1, classify, origin_callid=e.get("id"), from_entry=True)
                        hits = [h for h in hits if h[0] != "abort"]
                    bad = next((h for h in hits if h[0] != "fail"), None)
                    if bad is None:
                        r.ok(f, key, "assuming -1, every return reached is negative or the merged status", e["line"])
                        ok = True
                    else:
                        kind, rb, ri, re, path, lost = bad
                        r.bad(f, key, "assuming %s returned -1 (fatal), control reaches the return at line %s (%s)%s" % (
                            key, re.get("line"), kind, " after the status variable was overwritten" if lost else ""), e["line"],
                            witness={"path": guards.path_lines(f, list(path))})
            is_cb_site = "callee" not in e
            for t in tg:
                siteok.setdefault((f.key, t, is_cb_site), []).append(ok)
            # a status function passed as a callback: the verdict of this site is the verdict of the edge caller -> callback
            for a in e.get("args", []):
                for n in walk(a.get("tree")):
                    if n[0] == "fn":
                        cf = prog.func(n[1])
                        if cf is not None and cf.key in sf:
                            siteok.setdefault((f.key, cf.key, "via:" + key), []).append(ok)
    return r, siteok, sf


def r11_2(prog, tab, siteok, sf):
    r = Rule("R11.2", "each uniqueness/consistency checker is reached from asn1f_process along calls whose status propagates", floor=5)
    cg = prog.callgraph()
    root = prog.require("asn1f_process")
    # edges that propagate: caller -> callee with at least one site ok and none bad? require: some site propagates
    good = collections.defaultdict(set)
    cb_ok = set()
    for (caller, callee, kind), oks in siteok.items():
        if kind is True:
            # dispatcher -> callback through its function-pointer parameter: usable only together with a via-edge
            if any(oks):
                cb_ok.add((caller, callee))
        elif kind is False:
            if any(oks):
                good[caller].add(callee)
    for (caller, callee, kind), oks in siteok.items():
        if isinstance(kind, str) and kind.startswith("via:"):
            disp = prog.func(kind[4:])
            # every site passing this callback must propagate, and the dispatcher must merge its callback's status
            if all(oks) and disp is not None and (disp.key, callee) in cb_ok:
                good[caller].add(callee)
    for name in tab["checkers"]:
        f = prog.func(name)
        if f is None:
            raise AnalysisBroken("checker %s named by the property no longer exists" % name)
        # BFS over propagating edges
        prev = {root.key: None}
        dq = collections.deque([root.key])
        while dq:
            x = dq.popleft()
            for y in sorted(good.get(x, ())):
                if y not in prev:
                    prev[y] = x
                    dq.append(y)
        if f.key in prev:
            path = []
            x = f.key
            while x is not None:
                path.append(x)
                x = prev[x]
            r.ok(f, "path-from-asn1f_process", "status-propagating call path: %s" % " -> ".join(reversed(path)), f.line)
        elif f.key not in sf and cg.path([root.key], f.key):
            r.ok(f, "path-from-asn1f_process", "applied on the path %s; the function issues no fatal diagnostic of its own (it cannot fail), so there is no status to propagate" % " -> ".join(cg.path([root.key], f.key)), f.line)
        else:
            anyp = cg.path([root.key], f.key)
            r.bad(f, "path-from-asn1f_process", "no call path from asn1f_process to %s on which every call's status propagates%s" % (
                name, " (a plain call path exists: %s)" % " -> ".join(anyp) if anyp else " (the checker is not called at all)"), f.line)
    # asn1f_process maps fatal count / status to -1
    classify = classify_for(root)
    rets = [(b, i, e) for b, i, e in root.returns()]
    neg = any(e.get("expr", {}).get("const", 0) == -1 or "-1" in e.get("expr", {}).get("text", "") for b, i, e in rets)
    if neg:
        r.ok(root, "returns-minus-one", "asn1f_process has a -1 return for fatal errors", root.line, nontrivial=False)
    else:
        r.bad(root, "returns-minus-one", "asn1f_process never returns -1", root.line)
    return r


def r11_3(prog, tab, rid="R11.3", where="libasn1fix/", fatal=None, floor=60, exckey="r11_3_exceptions", nonzero_fails=False):
    """A fatal diagnostic is never followed by a non-failing return.  Sites: every FATAL(...) (arg->eh with severity 1)
    in a libasn1fix function that returns int.  From the site the CFG is explored with the constants assigned on the
    path tracked (so `r_value = -1; ...; return r_value;` is a failing return, and RET2RVAL's `if(rv) break` keeps
    it); a reachable `return 0`/`return 1`, or a return of a variable whose last value on the path is 0/1, means
    the message is printed and the compilation carries on to code generation with exit status 0."""
    fatal = fatal or is_fatal_call
    r = Rule(rid, "once a function of %s has issued a FATAL diagnostic it cannot return success or a mere warning" % where.rstrip("/"), floor=floor)
    exc = {(x["function"], x["key"]): x["reason"] for x in tab.get(exckey, [])}
    for f in sorted(prog.funcs.values(), key=lambda f: f.key):
        if where not in f.relfile:
            continue
        sites = sorted([(b, i, e) for b, i, e in f.events() if fatal(e)], key=lambda x: (x[2].get("line") or 0, x[0].id, x[1]))
        if not sites or f.ret_type not in ("int", "void"):
            continue        # pointer-returning lookups answer `found / not found`, not a status: out of this rule's scope
        classify = classify_for(f, nonzero_fails)
        n = 0
        seen_msgs = {}
        for b, i, e in sites:
            n += 1
            msg = ""
            for a in e.get("args", [])[1:2]:
                for nd in walk(a.get("tree")):
                    if nd[0] == "str":
                        msg = str(nd[1])
                        break
            msg = " ".join(msg.split())[:44]
            dup = seen_msgs.get(msg, 0) + 1
            seen_msgs[msg] = dup
            key = 'FATAL "%s"%s' % (msg, "" if dup == 1 else "#%d" % dup) if msg else "FATAL@%d" % n
            if (f.name, key) in exc:
                r.exc(f, key, exc[(f.name, key)], e["line"])
                continue
            if f.ret_type == "void":
                r.bad(f, key, "FATAL issued in a void function: the failure cannot reach the caller", e["line"])
                continue
            subj = assume.Subject("call", callid=e["id"])
            bad = None
            for fe in (False, True):
                hits = assume.explore(f, b, i, subj, 1, classify, origin_callid=e.get("id"), from_entry=fe, subject_return_ok=False, rel_facts_only=True)
                hits = [h for h in hits if h[0] != "abort"]
                bad = next((h for h in hits if h[0] != "fail"), None)
                if bad is None:
                    break
            if bad is None:
                r.ok(f, key, "every return reachable after this diagnostic is negative", e["line"])
            else:
                kind, rb, ri, re_, path, lost = bad
                r.bad(f, key, "after this FATAL diagnostic control reaches the return at line %s (%s): the error is printed but the "
                              "function reports %s" % (re_.get("line"), kind, "success" if kind == "success" else "an undetermined status"),
                      e["line"], witness={"path": guards.path_lines(f, list(path))})
    return r


def module_barriers_rule(prog, rows, r):
    """Barriers across modules: in the driver, the call that (transitively) runs `after` sits behind a completed loop over
    all modules that (transitively) runs `before`."""
    # barriers across modules: in the driver, the call that (transitively) runs `after` sits behind a completed loop over all
    # modules that (transitively) runs `before`, and does not itself run `before` for its own module only
    cg = prog.callgraph()

    def reaches(site_event, caller, name):
        """does this call site run `name`?  Direct callees and the functions handed over as arguments are followed; a call through
        a function-pointer *parameter* (asn1f_recurse_expr's callback) is not expanded to every callback ever passed to it --
        only the ones passed along this chain count"""
        tgt = prog.func(name)
        if tgt is None:
            raise AnalysisBroken("pass %s not found" % name)
        seen, st = set(), []

        def targets_of(e, g):
            out = []
            if "callee" in e:
                c = prog.resolve_direct(e["callee"], g)
                if c is not None:
                    out.append(c)
            for a in e.get("args", []):
                for n in walk(a.get("tree")):
                    if n[0] == "fn":
                        c = prog.func(n[1])
                        if c is not None:
                            out.append(c)
            return out
        st.extend(targets_of(site_event, caller))
        while st:
            g = st.pop()
            if g.key in seen:
                continue
            seen.add(g.key)
            if g.key == tgt.key:
                return True
            for b_, i_, x in g.calls():
                st.extend(targets_of(x, g))
        return False
    for row in rows:
        f = prog.func(row["function"])
        if f is None:
            raise AnalysisBroken("%s not found" % row["function"])
        loops = f.loops()
        dom = f.dominators()
        sites = [(b, i, e, None) for b, i, e in f.calls()]
        afters = [(b, i, e, tg) for b, i, e, tg in sites if reaches(e, f, row["after"])]
        befores = [(b, i, e, tg) for b, i, e, tg in sites if reaches(e, f, row["before"])]
        if not afters or not befores:
            raise AnalysisBroken("%s: no call reaching %s / %s" % (row["function"], row["before"], row["after"]))
        for ab, ai, ae, atg in afters:
            key = "%s<<%s via %s" % (row["before"], row["after"], ae.get("callee") or "indirect")
            good = False
            for bb, bi, be, btg in befores:
                for h, body in loops:
                    if bb.id in body and ab.id not in body and h in dom.get(ab.id, ()):
                        good = True
            if good:
                r.ok(f, key, "a loop over all modules running %s is complete before %s can run for any module" % (row["before"], row["after"]), ae["line"])
            else:
                r.bad(f, key, "%s runs for one module (through %s) before %s has run for all modules: %s" % (
                    row["after"], ae.get("callee") or "an indirect call", row["before"], row["reason"]), ae["line"])


def r11_4(prog, tab):
    """Module-wide pass barriers.  For each (before, after) pair of the table inside the named driver function: every
    call site that runs `after` (directly, or as the callback handed to asn1f_recurse_expr) is dominated by the header
    of a loop that contains a `before` site and does not contain the `after` site: the earlier pass has been applied to
    every member of the module before the later pass looks at the first one."""
    r = Rule("R11.4", "tag-distinctness checking starts only after tagging passes have run over the whole module", floor=3)
    for row in tab.get("pass_barriers", []):
        f = prog.func(row["function"])
        if f is None:
            raise AnalysisBroken("%s not found" % row["function"])

        def sites(name):
            out = []
            for b, i, e in f.calls():
                if e.get("callee") == name or any(n[0] == "fn" and n[1] == name for a in e.get("args", []) for n in walk(a.get("tree"))):
                    out.append((b, i, e))
            return out
        bs, as_ = sites(row["before"]), sites(row["after"])
        if not bs or not as_:
            raise AnalysisBroken("%s: pass %s or %s not found" % (row["function"], row["before"], row["after"]))
        loops = f.loops()
        dom = f.dominators()
        for ab, ai, ae in as_:
            key = "%s<%s" % (row["before"], row["after"])
            good = False
            for bb, bi, be in bs:
                for h, body in loops:
                    if bb.id in body and ab.id not in body and h in dom.get(ab.id, ()):
                        good = True
            if good:
                r.ok(f, key, "the loop applying %s to every member is complete before %s runs" % (row["before"], row["after"]), ae["line"])
            else:
                r.bad(f, key, "%s can run for one member before %s has been applied to all members (same loop, or no dominating "
                              "loop): %s" % (row["after"], row["before"], row["reason"]), ae["line"])
    module_barriers_rule(prog, tab.get("module_barriers", []), r)
    # in-function sequences: after `first` ran, `then` runs on every path to a return
    from .c15 import must_pass
    for row in tab.get("pass_sequences", []):
        f = prog.func(row["function"])
        if f is None:
            raise AnalysisBroken("%s not found" % row["function"])
        firsts = [(b, i, e) for b, i, e in f.calls() if e.get("callee") == row["first"]]
        if not firsts:
            raise AnalysisBroken("%s: call of %s not found" % (row["function"], row["first"]))
        for b, i, e in firsts:
            key = "%s;%s" % (row["first"], row["then"])

            def isthen(y, row=row):
                return y["k"] == "call" and y.get("callee") == row["then"]
            bad = None
            for rb, ri, re_ in f.returns():
                if rb.id == b.id and ri > i:
                    okp = any(isthen(y) for y in b.ev[i + 1:ri])
                elif rb.id not in f.reachable_from([b.id]):
                    continue
                else:
                    okp = any(isthen(y) for y in b.ev[i + 1:]) or all(must_pass(f, s_, rb.id, ri, isthen) for s_ in b.succs())
                if not okp:
                    bad = re_
                    break
            if bad is None:
                r.ok(f, key, "%s runs after %s on every path to a return" % (row["then"], row["first"]), e["line"])
            else:
                r.bad(f, key, "after %s the function can return (line %s) without running %s: %s" % (row["first"], bad.get("line"), row["then"], row["reason"]), e["line"])
    return r


def r11_5(prog, tab):
    """The member marker (EM_INDIRECT 0x01, EM_OMITABLE 0x02, EM_OPTIONAL 0x07, EM_DEFAULT 0x0F, EM_UNRECURSE 0x10) is a
    bit set whose named values include one another: DEFAULT is a superset of OPTIONAL, and EM_INDIRECT/EM_UNRECURSE
    are or-ed in by the code generator.  Every test of `marker.flags` must therefore be a truth test or go through a
    mask; an `==` / `!=` against a non-zero enumerator without a mask silently excludes DEFAULT (or pointer-represented)
    members, e.g. from the run of optional components whose tags must be distinct."""
    r = Rule("R11.5", "marker.flags is tested through a mask (in the compiler and printer also by truth value), never by raw (in)equality with a non-zero enumerator; the fixer never decides optionality by the truth value of the whole set", floor=12)

    def is_flags(t):
        t = strip_casts(t)
        return isinstance(t, list) and t and t[0] == "member" and t[2] == "flags" and "marker" in tree_text(t)
    counts = collections.Counter()
    for f in sorted(prog.funcs.values(), key=lambda f: f.key):
        n = 0
        seen = set()
        for b, line, tree in f.all_trees():
            for nd in walk(tree):
                if not (isinstance(nd, list) and nd and nd[0] == "bin"):
                    continue
                if nd[1] in ("==", "!=") and (is_flags(nd[2]) or is_flags(nd[3])):
                    other = nd[3] if is_flags(nd[2]) else nd[2]
                    c = const_of(other)
                    if (line, tree_text(nd)) in seen:
                        continue
                    seen.add((line, tree_text(nd)))
                    n += 1
                    key = "cmp@%d" % n
                    if c == 0:
                        r.ok(f, key, "comparison with 0 (no marker at all)", line)
                    elif c is None:
                        r.ok(f, key, "two marker sets compared with each other", line)
                    else:
                        r.bad(f, key, "`%s`: raw comparison of the marker bit set with %s; DEFAULT (0x0F) contains OPTIONAL (0x07) and "
                                      "EM_INDIRECT/EM_UNRECURSE may be or-ed in, so members are silently excluded" % (tree_text(nd), tree_text(other)), line)
                elif nd[1] == "&" and (is_flags(nd[2]) or is_flags(nd[3])):
                    counts[f.key] += 1
        if counts[f.key]:
            r.ok(f, "masked-tests", "%d tests of marker.flags go through a mask" % counts[f.key], None)
        # in the fixer a bare truth test asks `is the component optional?`, but EM_INDIRECT (0x01) is a representation bit
        # that the parser sets from the RepresentAsPointer directive on mandatory components too
        if "libasn1fix/" in f.relfile:
            m = 0
            for b in sorted(f.blocks.values(), key=lambda b: b.id):
                if not (b.term and "cond" in b.term):
                    continue
                t = strip_casts(b.term["cond"]["tree"])
                neg = False
                while isinstance(t, list) and t and t[0] == "un" and t[1] == "!":
                    t = strip_casts(t[2])
                    neg = not neg
                if is_flags(t):
                    m += 1
                    r.bad(f, "truth@%d" % m, "`%s%s` decides optionality by the whole marker set: a mandatory component carrying only EM_INDIRECT "
                                             "(--<ASN1C.RepresentAsPointer>--) is taken for an optional one; test `& EM_OMITABLE`" % ("!" if neg else "", tree_text(t)), b.term.get("line"))
    return r


def r11_6(prog):
    """Every pass of the fixer is applied to every top-level member.  In asn1f_process and the two module phases, a call
    that applies a fixing or checking pass (asn1f_recurse_expr(arg, <pass>), a direct asn1f_* pass, a module phase) from
    inside a loop over the modules or over a module's members lies on every iteration of that loop: no path leads from
    the loop header back to it that avoids the call.  A `continue` in front of a check (`this kind of type cannot be
    wrong`) exempts the whole subtree the pass would have walked."""
    r = Rule("R11.6", "inside the module and member loops of the fixer, every pass is applied on every iteration", floor=8)
    for fn in ("asn1f_process", "asn1f_fix_module__phase_1", "asn1f_fix_module__phase_2"):
        f = prog.require(fn)
        loops = f.loops()
        n = 0
        for b, i, e in sorted(f.calls(), key=lambda z: (z[2].get("line") or 0)):
            cal = e.get("callee")
            if cal == "asn1f_recurse_expr" and len(e.get("args", [])) > 1:
                cb = tree_text(e["args"][1]["tree"])
            elif cal and cal.startswith("asn1f_") or cal == "phase_1_1":
                cb = cal
            else:
                continue
            inner = [(h, body) for h, body in loops if b.id in body]
            if not inner:
                continue
            h, body = min(inner, key=lambda x: len(x[1]))
            n += 1
            key = "%s#%d" % (cb, n)
            avoid = False
            if b.id != h:
                seen, st = set(), [s_ for s_ in f.blocks[h].succs() if s_ in body and s_ != b.id]
                while st:
                    x = st.pop()
                    if x == h:
                        avoid = True
                        break
                    if x in seen or x == b.id or x not in body:
                        continue
                    seen.add(x)
                    st.extend(f.blocks[x].succs())
            if avoid:
                r.bad(f, key, "an iteration of the enclosing loop can go round without calling %s: the members it skips are never given this pass" % cb, e["line"])
            else:
                r.ok(f, key, "called on every iteration of the enclosing loop", e["line"])
    return r


def run(ctx):
    prog = ctx.prog("K")
    tab = load_tables("c11")
    r1, siteok, sf = r11_1(prog, tab)
    r2 = r11_2(prog, tab, siteok, sf)
    return [r1, r2, r11_3(prog, tab), r11_4(prog, tab), r11_5(prog, tab), r11_6(prog)]


def thorough(ctx):
    from .. import selftest
    import sys
    return selftest.run_mutants("C11", sys.modules[__name__])
