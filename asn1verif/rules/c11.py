"""C11 ambiguous or inconsistent specifications are rejected — R11.1 no fixer status is dropped, R11.2 every
uniqueness check is on the road to the exit code."""
import collections

from ..engine import Rule, load_tables
from ..extract import AnalysisBroken
from ..model import walk, strip_casts, is_var, const_of, tree_text
from .. import assume, guards

EXPLANATION = (
    "Status functions are derived: every function of libasn1fix returning int whose first parameter is arg_t* (the "
    "-1/0/1 convention merged by RET2RVAL), plus the callbacks handed to asn1f_recurse_expr. R11.1: for every call to "
    "one of them the result must be held (not discarded); assuming it is -1 (fatal), the path-sensitive exploration "
    "(which follows the value through RET2RVAL's copy `__ret`, its switch and the merge into the running status) must "
    "not reach a return of 0/1 or of an unrelated value. R11.2: for each checker named by the property (tag "
    "distinctness, unique identifiers, enum values, auto-tagging, type dereferencing) there is a call-graph path from "
    "asn1f_process (callbacks passed to asn1f_recurse_expr resolved) all of whose call sites satisfy R11.1, and "
    "asn1f_process maps a non-zero fatal count to -1 (R10.1 maps that to a non-zero exit without calling asn1_compile).")
NOT_DECIDED = "the verdict logic itself (that _asn1f_compare_tags / asn1f_fetch_tags_impl compute X.680 distinctness correctly)"
ASSUMPTIONS = ["fatal status is -1, warning 1, success 0 (asn1fix_internal.h RET2RVAL)"]


def is_fatal_call(e):
    """FATAL(...) expands to arg->eh(1, fmt, ...): the fixer's error handler with severity 1"""
    return e["k"] == "call" and e.get("slot") == "eh" and e.get("args") and e["args"][0].get("const") == 1


def status_functions(prog):
    """int f(arg_t *, ...) in libasn1fix whose negative result means `a fatal diagnostic was issued`: the function
    issues FATAL itself, or passes on / merges the status of such a function (least fixpoint)."""
    cand = {}
    for f in prog.funcs.values():
        if "libasn1fix/" not in f.relfile or f.ret_type != "int" or not f.params:
            continue
        if "arg_t *" in f.params[0]["type"] or "struct arg_s *" in f.params[0]["type"]:
            cand[f.key] = f
    out = {k for k, f in cand.items() if any(is_fatal_call(e) for b, i, e in f.events())}
    cg = prog.callgraph()
    changed = True
    while changed:
        changed = False
        for k, f in cand.items():
            if k in out:
                continue
            retvars = set()
            for b, i, e in f.returns():
                ex = e.get("expr")
                if ex:
                    retvars |= {n[1] for n in walk(ex["tree"]) if n[0] == "var"}
            for b, i, e, tg in cg.sites[k]:
                if not any(t in out for t in tg):
                    continue
                if e.get("use") not in ("discarded", "voidcast"):
                    out.add(k)
                    changed = True
                    break
    return out


def classify_for(f):
    ptr = f.ret_type.rstrip().endswith("*")

    def classify(b, i, e, env=None):
        env = env or {}
        ex = e.get("expr")
        if not ex:
            return "success"
        if "const" in ex:
            if ptr:
                return "fail" if ex["const"] == 0 else "success"
            return "fail" if ex["const"] < 0 else "success"
        t = strip_casts(ex["tree"])
        if is_var(t):
            v = env.get((t[1], None))
            if isinstance(v, int):
                return "fail" if v < 0 else "success"
            return "unknown:var"
        if isinstance(t, list) and t and t[0] == "cond":
            return "unknown:ternary"
        return "unknown:expr"
    return classify


def r11_1(prog, tab):
    r = Rule("R11.1", "a fatal status (-1) returned by a fixer function is never dropped: it reaches the caller's return value", floor=60)
    sf = status_functions(prog)
    cg = prog.callgraph()
    exc = {(x["function"], x["key"]): x["reason"] for x in tab.get("r11_1_exceptions", [])}
    siteok = {}
    for f in sorted(prog.funcs.values(), key=lambda f: f.key):
        if "libasn1fix/" not in f.relfile:
            continue
        classify = classify_for(f)
        for b, i, e, targets in cg.sites[f.key]:
            tg = [t for t in targets if t in sf]
            if not tg:
                continue
            key = e.get("callee") or ("cb:" + e.get("fp_var", "?").split("@")[0])
            ok = False
            use = e.get("use")
            if (f.name, key) in exc:
                r.exc(f, key, exc[(f.name, key)], e["line"])
                for t in tg:
                    siteok.setdefault((f.key, t, "callee" not in e), []).append(True)
                continue
            if use in ("discarded", "voidcast"):
                r.bad(f, key, "status of %s is discarded: a fatal diagnostic inside it does not fail the compilation" % key, e["line"])
            elif use == "returned":
                r.ok(f, key, "status returned to the caller", e["line"], nontrivial=False)
                ok = True
            elif f.ret_type == "void":
                r.bad(f, key, "status of %s consumed in a void function: it cannot propagate" % key, e["line"])
            else:
                subj = assume.subject_of_call(e, None)
                if subj is None:
                    r.bad(f, key, "status of %s is used as `%s` and never merged" % (key, use), e["line"])
                else:
                    hits = assume.explore(f, b, i, subj, -1, classify, origin_callid=e.get("id"), from_entry=False)
                    hits = [h for h in hits if h[0] != "abort"]
                    if hits and any(h[0] != "fail" for h in hits):
                        hits = assume.explore(f, b, i, subj, -1, classify, origin_callid=e.get("id"), from_entry=True)
                        hits = [h for h in hits if h[0] != "abort"]
                    bad = next((h for h in hits if h[0] != "fail"), None)
                    if bad is None:
                        r.ok(f, key, "assuming -1, every return reached is negative or the merged status", e["line"])
                        ok = True
                    else:
                        kind, rb, ri, re, path, lost = bad
                        r.bad(f, key, "assuming %s returned -1 (fatal), control reaches the return at line %s (%s)%s" % (
                            key, re.get("line"), kind, " after the status variable was overwritten" if lost else ""), e["line"],
                            witness={"path": guards.path_lines(f, list(path))})
            is_cb_site = "callee" not in e
            for t in tg:
                siteok.setdefault((f.key, t, is_cb_site), []).append(ok)
            # a status function passed as a callback: the verdict of this site is the verdict of the edge caller -> callback
            for a in e.get("args", []):
                for n in walk(a.get("tree")):
                    if n[0] == "fn":
                        cf = prog.func(n[1])
                        if cf is not None and cf.key in sf:
                            siteok.setdefault((f.key, cf.key, "via:" + key), []).append(ok)
    return r, siteok, sf


def r11_2(prog, tab, siteok, sf):
    r = Rule("R11.2", "each uniqueness/consistency checker is reached from asn1f_process along calls whose status propagates", floor=5)
    cg = prog.callgraph()
    root = prog.require("asn1f_process")
    # edges that propagate: caller -> callee with at least one site ok and none bad? require: some site propagates
    good = collections.defaultdict(set)
    cb_ok = set()
    for (caller, callee, kind), oks in siteok.items():
        if kind is True:
            # dispatcher -> callback through its function-pointer parameter: usable only together with a via-edge
            if any(oks):
                cb_ok.add((caller, callee))
        elif kind is False:
            if any(oks):
                good[caller].add(callee)
    for (caller, callee, kind), oks in siteok.items():
        if isinstance(kind, str) and kind.startswith("via:"):
            disp = prog.func(kind[4:])
            # every site passing this callback must propagate, and the dispatcher must merge its callback's status
            if all(oks) and disp is not None and (disp.key, callee) in cb_ok:
                good[caller].add(callee)
    for name in tab["checkers"]:
        f = prog.func(name)
        if f is None:
            raise AnalysisBroken("checker %s named by the property no longer exists" % name)
        # BFS over propagating edges
        prev = {root.key: None}
        dq = collections.deque([root.key])
        while dq:
            x = dq.popleft()
            for y in sorted(good.get(x, ())):
                if y not in prev:
                    prev[y] = x
                    dq.append(y)
        if f.key in prev:
            path = []
            x = f.key
            while x is not None:
                path.append(x)
                x = prev[x]
            r.ok(f, "path-from-asn1f_process", "status-propagating call path: %s" % " -> ".join(reversed(path)), f.line)
        elif f.key not in sf and cg.path([root.key], f.key):
            r.ok(f, "path-from-asn1f_process", "applied on the path %s; the function issues no fatal diagnostic of its own (it cannot fail), so there is no status to propagate" % " -> ".join(cg.path([root.key], f.key)), f.line)
        else:
            anyp = cg.path([root.key], f.key)
            r.bad(f, "path-from-asn1f_process", "no call path from asn1f_process to %s on which every call's status propagates%s" % (
                name, " (a plain call path exists: %s)" % " -> ".join(anyp) if anyp else " (the checker is not called at all)"), f.line)
    # asn1f_process maps fatal count / status to -1
    classify = classify_for(root)
    rets = [(b, i, e) for b, i, e in root.returns()]
    neg = any(e.get("expr", {}).get("const", 0) == -1 or "-1" in e.get("expr", {}).get("text", "") for b, i, e in rets)
    if neg:
        r.ok(root, "returns-minus-one", "asn1f_process has a -1 return for fatal errors", root.line, nontrivial=False)
    else:
        r.bad(root, "returns-minus-one", "asn1f_process never returns -1", root.line)
    return r


def run(ctx):
    prog = ctx.prog("K")
    tab = load_tables("c11")
    r1, siteok, sf = r11_1(prog, tab)
    r2 = r11_2(prog, tab, siteok, sf)
    return [r1, r2]


def thorough(ctx):
    from .. import selftest
    import sys
    return selftest.run_mutants("C11", sys.modules[__name__])
