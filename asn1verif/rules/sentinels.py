"""Sentinel discrimination: results of the fetch family (>0 length, 0 need more, -1 error) and of the PER bit
getters (-1 starved) must not be used in arithmetic where a sentinel is still possible.  For each call, for each
sentinel value v: the CFG is walked from the call with every branch on the result folded under result == v; any
addition, subtraction, multiplication, pointer offset, subscript or allocation size that uses the result and is
still reachable is a misuse."""
from ..model import walk, strip_casts, is_var
from .. import assume

NOISE = {"fprintf", "osprintfError", "osprintf", "__assert_fail", "printf"}


def sentinel_rule(prog, rule, funcs, fetchers, exceptions=None):
    exceptions = exceptions or {}
    for f in sorted(funcs, key=lambda f: f.key):
        for b, i, e in f.calls():
            cal = e.get("callee")
            if cal not in fetchers:
                continue
            subj = assume.subject_of_call(e, None)
            key = cal
            if (subj is None or subj.kind == "call") and (f.name, key) in exceptions:
                rule.exc(f, key, exceptions[(f.name, key)], e["line"])
                continue
            if subj is None or subj.kind == "call":
                if e.get("use") in ("discarded", "voidcast"):
                    rule.bad(f, key, "result of %s is discarded: `need more data` and `error` cannot be told from success" % cal, e["line"])
                elif e.get("use") == "operand":
                    rule.bad(f, key, "result of %s is used directly in arithmetic (%s) before any test" % (cal, e.get("useinfo", {}).get("op")), e["line"])
                else:
                    rule.ok(f, key, "result tested in place (%s)" % e.get("use"), e["line"], nontrivial=False)
                continue
            vid = subj.var
            if vid is None:
                rule.ok(f, key, "result stored in a field (not followed)", e["line"], nontrivial=False)
                continue
            bad = None
            pred = subj.pred()
            # plain copies of the result (size_t num = len_size inside ADVANCE) are the result too
            copies = {vid}
            for b2, i2, e2 in f.events():
                t2 = None
                if e2["k"] == "decl" and "init" in e2:
                    t2, tgt2 = e2["init"]["tree"], e2["id"]
                elif e2["k"] == "assign" and e2.get("op") == "=" and e2.get("base_id") and not e2.get("deref") and e2.get("lhs") == e2.get("base") and "rhs" in e2:
                    t2, tgt2 = e2["rhs"]["tree"], e2["base_id"]
                if t2 is not None and is_var(strip_casts(t2), vid):
                    copies.add(tgt2)

            def uses(t):
                t = strip_casts(t)
                return is_var(t) and t[1] in copies
            for v in fetchers[cal]:
                seen, st = set(), [(b.id, i + 1, True)]
                while st and bad is None:
                    bid, pos, first = st.pop()
                    if (bid, pos) in seen:
                        continue
                    seen.add((bid, pos))
                    blk = f.blocks[bid]
                    stop = False
                    for j in range(pos, len(blk.ev)):
                        x = blk.ev[j]
                        storing = first and any(n[0] in ("call", "icall") and n[1] == e["id"] for n in walk((x.get("rhs") or x.get("init") or {}).get("tree")))
                        if storing:
                            continue
                        if x["k"] == "assign" and x.get("base_id") == vid and not x.get("deref") and x.get("lhs") == x.get("base") and x.get("op") == "=":
                            stop = True
                            break
                        trees = []
                        if x["k"] == "assign":
                            trees = [x.get("rhs", {}).get("tree")]
                            if x.get("op") in ("+=", "-=", "*=") and uses(x["rhs"]["tree"]):
                                bad = (v, x)
                            # the error sentinel reported as a byte count: `rv.consumed = ret` while ret == -1
                            if v < 0 and x.get("op") == "=" and x.get("field") == "consumed" and "rhs" in x and uses(x["rhs"]["tree"]):
                                bad = (v, x)
                        elif x["k"] == "decl":
                            trees = [x.get("init", {}).get("tree")]
                        elif x["k"] == "call" and x.get("callee") not in NOISE:
                            trees = [a.get("tree") for a in x.get("args", [])]
                            if x.get("callee") in ("malloc", "calloc", "realloc") and any(uses(a.get("tree")) for a in x.get("args", [])):
                                bad = (v, x)
                        elif x["k"] == "subscript":
                            trees = [x.get("index", {}).get("tree")]
                            if uses(trees[0]):
                                bad = (v, x)
                        for t in trees:
                            for n in walk(t):
                                if n[0] == "bin" and n[1] in ("+", "-", "*") and (uses(n[2]) or uses(n[3])):
                                    bad = (v, x)
                        if x["k"] == "return" or bad:
                            stop = True
                            break
                    if stop or bad:
                        continue
                    alive = list(range(len(blk.succ)))
                    if blk.term and "cond" in blk.term:
                        if blk.term["kind"] == "SwitchStmt":
                            val = assume.eval_under(blk.term["cond"]["tree"], pred, v)
                            if val is not None:
                                hit = dflt = None
                                for idx, s_ in enumerate(blk.succ):
                                    if s_ is None:
                                        continue
                                    lab = f.blocks[s_].label or {}
                                    if lab.get("kind") == "case" and lab.get("value") == val:
                                        hit = idx
                                    elif lab.get("kind") != "case":
                                        dflt = idx
                                alive = [hit if hit is not None else dflt]
                        elif len(blk.succ) >= 2:
                            val = assume.eval_under(blk.term["cond"]["tree"], pred, v)
                            if val is not None:
                                alive = [0] if val else [1]
                    for idx in alive:
                        if idx is not None and idx < len(blk.succ) and blk.succ[idx] is not None:
                            st.append((blk.succ[idx], 0, False))
                if bad:
                    break
            ek = (f.name, key)
            if bad is None:
                rule.ok(f, key, "assuming the call answered a sentinel, no arithmetic on its result is reachable", e["line"])
            elif ek in exceptions:
                rule.exc(f, key, exceptions[ek], e["line"])
            else:
                v, x = bad
                rule.bad(f, key, "assuming %s returned %d, its result is still used in arithmetic at line %s (`%s`): a sentinel is treated as a length" % (
                    cal, v, x.get("line"), (x.get("lhs") or x.get("text") or "")[:60]), e["line"])
