"""C18 open types resolve per the object table — R18.1 the four OPEN_TYPE_*_get siblings agree."""
from ..engine import Rule, load_tables
from ..extract import AnalysisBroken
from ..model import walk, strip_casts, is_var, const_of, tree_text
from ..retabs import dec_returns
from .. import guards

EXPLANATION = (
    "Sibling cross-check of OPEN_TYPE_ber_get / _xer_get / _uper_get / _oer_get: each (1) tests ATF_OPEN_TYPE on the "
    "member, (2) calls the generated type_selector only where it is non-NULL (assume-NULL reachability), (3) indexes "
    "elements[presence_index - 1] only where presence_index != 0, (4) never does pointer arithmetic on *memb_ptr2 on a "
    "path where it is NULL unless the pointer (OPTIONAL) case is excluded by an assertion that flags == ATF_OPEN_TYPE "
    "(Engler-style contradiction: the function itself tests *memb_ptr2 against NULL), and (5) after the inner decoder "
    "ran, every return that may carry a code other than RC_OK is reached only through the code that frees the inner "
    "value (or through the edge on which there is nothing to free).")
NOT_DECIDED = "that the generated selector maps identifier to type correctly (emitted text); encoding side"
ASSUMPTIONS = []

SIBLINGS = ["OPEN_TYPE_ber_get", "OPEN_TYPE_xer_get", "OPEN_TYPE_uper_get", "OPEN_TYPE_oer_get"]


def run_config(prog, cfg):
    r = Rule("R18.1", "the open type getters agree on flag test, selector and presence guards, NULL holder and cleanup on failure", floor=12)
    present = [n for n in SIBLINGS if prog.func(n) is not None]
    if cfg == "default" and len(present) != 4:
        raise AnalysisBroken("open type getters found: %s" % present)
    for name in present:
        f = prog.func(name)
        # (1) flag test
        has_flag_test = False
        exact_assert = False
        for b in f.blocks.values():
            if b.term and "cond" in b.term:
                ct = b.term["cond"].get("full_tree") or b.term["cond"]["tree"]
                if any(n[0] == "enum" and n[1] == "ATF_OPEN_TYPE" for n in walk(ct)):
                    has_flag_test = True
        for b, i, e in f.events("assert"):
            ct = e["cond"]["tree"]
            if any(n[0] == "enum" and n[1] == "ATF_OPEN_TYPE" for n in walk(ct)):
                has_flag_test = True
                t = strip_casts(ct)
                if isinstance(t, list) and t[0] == "bin" and t[1] == "==":
                    exact_assert = True
        if has_flag_test:
            r.ok(f, "ATF_OPEN_TYPE", "member flags are tested for ATF_OPEN_TYPE", f.line, nontrivial=False)
        else:
            r.bad(f, "ATF_OPEN_TYPE", "never tests that the member is an open type", f.line)
        # (2) selector guard
        sel = [(b, i, e) for b, i, e in f.calls() if e.get("slot") == "type_selector"]
        if not sel:
            r.bad(f, "type_selector", "never consults the type selector", f.line)
        for b, i, e in sel:
            p = guards.null_reachable(f, e["callee_tree"], b)
            if p is None:
                r.ok(f, "type_selector", "selector called only where it is non-NULL", e["line"])
            else:
                r.bad(f, "type_selector", "type_selector (NULL when the compiler could not build the relation) is called on a path where it is NULL",
                      e["line"], witness={"path": guards.path_lines(f, p)})
        # (3) presence index guard
        for b, i, e in f.events("subscript"):
            idx = e.get("index", {}).get("tree")
            pm = [n for n in walk(idx) if n[0] == "member" and n[2] == "presence_index"]
            if not pm:
                continue
            p = guards.null_reachable(f, pm[0], b)
            if p is None:
                r.ok(f, "presence_index", "elements[presence_index - 1] is reached only with presence_index != 0", e["line"])
            else:
                r.bad(f, "presence_index", "elements[presence_index - 1] is indexed on a path where presence_index is 0 (no row for the identifier): index -1",
                      e["line"], witness={"path": guards.path_lines(f, p)})
        # (4) arithmetic on a NULL holder
        for b, i, e in f.events():
            tree = (e.get("rhs") or e.get("init") or {}).get("tree") if e["k"] in ("assign", "decl") else None
            if tree is None:
                continue
            for n in walk(tree):
                if n[0] == "bin" and n[1] == "+":
                    l = strip_casts(n[2])
                    if isinstance(l, list) and l[0] == "un" and l[1] == "*" and is_var(l[2]):
                        p = guards.null_reachable(f, l, b)
                        key = "holder-arith:%s" % tree_text(l)
                        if p is None:
                            r.ok(f, key, "pointer arithmetic on the holder only where it is non-NULL", e["line"])
                        elif exact_assert:
                            r.ok(f, key, "the pointer (OPTIONAL) case is excluded by assert(flags == ATF_OPEN_TYPE); an inline holder is never NULL", e["line"])
                        else:
                            tested = any(bb.term and "cond" in bb.term and any(guards.canon(x) == guards.canon(l) for x in walk(bb.term["cond"].get("full_tree") or bb.term["cond"]["tree"]))
                                         for bb in f.blocks.values())
                            r.bad(f, key, "`%s` %s yet is the base of pointer arithmetic on a path where it is NULL (an OPTIONAL open type "
                                          "member not yet allocated): the inner decoder writes through NULL + offset" % (
                                              tree_text(l), "is tested against NULL in this function" if tested else "may be NULL"),
                                  e["line"], witness={"path": guards.path_lines(f, p)})
        # (5) cleanup when the inner decoder did not succeed
        from .. import assume
        inner = [(b, i, e) for b, i, e in f.calls() if (e.get("slot") in ("ber_decoder", "xer_decoder", "uper_decoder", "oer_decoder"))
                 or e.get("callee") in ("uper_open_type_get", "oer_open_type_get")]
        # the partial value is released through the *selected* type's free function applied to the inner value; a free/reset
        # of the holder through the open type's own descriptor frees nothing while the presence index is still 0
        def _frees_inner(e):
            if e.get("slot") != "free_struct":
                return False
            txt = tree_text(e.get("callee_tree"))
            return "selected" in txt and any(is_var(strip_casts(a.get("tree"))) and strip_casts(a["tree"])[1].split("@")[0] == "inner_value" for a in e.get("args", []))
        free_blocks = {b.id for b, i, e in f.calls() if _frees_inner(e)}
        for db, di, de in inner:
            key = "cleanup-after:%s" % (de.get("callee") or "->" + de["slot"])
            struct = "asn_dec_rval" in de.get("ret_type", "")
            subj = assume.subject_of_call(de, "code" if struct else None)
            if subj is None:
                r.bad(f, key, "result of the inner decoder is not held anywhere", de["line"])
                continue
            values = (1, 2) if struct else (-1, 0)
            bad = None
            # edges on which there is nothing to free: the NULL edge of a test of the holder
            null_edges = set()
            for bb in f.blocks.values():
                if bb.term and "cond" in bb.term and len(bb.succ) >= 2:
                    ct = strip_casts(bb.term["cond"]["tree"])
                    if isinstance(ct, list) and ct and ((ct[0] == "un" and ct[1] == "*") or (ct[0] == "bin" and ct[1] == "!=" and const_of(ct[3]) == 0)):
                        if bb.succ[1] is not None:
                            null_edges.add((bb.id, bb.succ[1]))
            for v in values:
                # is a return reachable, under the assumption, on a path that avoids every block freeing the inner value?
                hits = assume.explore(f, db, di, subj, v, lambda b_, i_, e_, env=None: "success", origin_callid=de.get("id"), from_entry=False,
                                      subject_return_ok=False, stop_blocks=free_blocks - {db.id}, dead_edges=null_edges)
                for kind, rb, ri, re, path, lost in hits:
                    if kind == "abort":
                        continue
                    bad = (v, re, path)
                    break
                if bad:
                    break
            if bad is None:
                r.ok(f, key, "assuming the inner decoder answered WMORE/FAIL, every return passes the code that frees the inner value (or the holder is NULL)", de["line"])
            else:
                v, re, path = bad
                r.bad(f, key, "assuming the inner decoder returned %s, the return at line %s is reached without freeing the partially decoded "
                              "inner value: it leaks, or is decoded over on the next attempt" % (v, re.get("line")), de["line"],
                      witness={"path": guards.path_lines(f, list(path))})
    # (7) the holder is reset before the inner decoder runs: a holder that still carries the alternative of an earlier
    # (failed, starved or successful) attempt would be decoded over: its context and buffers belong to another type
    for name in present:
        f = prog.func(name)
        inner = [(b, i, e) for b, i, e in f.calls() if (e.get("slot") in ("ber_decoder", "xer_decoder", "uper_decoder", "oer_decoder"))
                 or e.get("callee") in ("uper_open_type_get", "oer_open_type_get")]
        resets = {}
        for b, i, e in f.calls():
            if e.get("callee") == "CHOICE_variant_set_presence" and len(e.get("args", [])) == 3 and const_of(e["args"][2].get("tree")) == 0:
                resets.setdefault(b.id, i)
        null_edges = set()
        for bb in f.blocks.values():
            if bb.term and "cond" in bb.term and len(bb.succ) >= 2:
                ct = strip_casts(bb.term["cond"]["tree"])
                if isinstance(ct, list) and ct and ((ct[0] == "un" and ct[1] == "*") or (ct[0] == "bin" and ct[1] == "!=" and const_of(ct[3]) == 0)):
                    if any(n[0] == "var" and n[1].split("@")[0] == "memb_ptr2" for n in walk(ct)) and bb.succ[1] is not None:
                        null_edges.add((bb.id, bb.succ[1]))
        for db, di, de in inner:
            key = "reset-before:%s" % (de.get("callee") or "->" + de["slot"])
            seen, st, hit = set(), [f.entry], False
            while st:
                x = st.pop()
                if x in seen or x not in f.blocks:
                    continue
                seen.add(x)
                if x in resets and not (x == db.id and resets[x] > di):
                    continue
                if x == db.id:
                    hit = True
                    break
                for s_ in f.blocks[x].succs():
                    if (x, s_) not in null_edges:
                        st.append(s_)
            if not hit:
                r.ok(f, key, "every path to the inner decoder with a non-NULL holder passes CHOICE_variant_set_presence(.., 0)", de["line"])
            else:
                r.bad(f, key, "the inner decoder is reached with a holder that was not reset (no CHOICE_variant_set_presence(.., 0) on the way): "
                              "what an earlier attempt left in it is decoded over as if it were the newly selected type", de["line"])
    # (6) the only descriptor whose `specifics` may be read as CHOICE specifics is the open type's own (elm->type / td):
    # the descriptor selected from the object set is an arbitrary type (INTEGER and BOOLEAN have no specifics at all)
    for name in present:
        f = prog.func(name)
        n = 0
        for b, i, e in f.events():
            tree = typ = None
            if e["k"] == "decl" and "init" in e:
                tree, typ = e["init"]["tree"], e.get("type", "")
            elif e["k"] == "assign" and "rhs" in e:
                tree, typ = e["rhs"]["tree"], e.get("base_type", "")
            if tree is None or "asn_CHOICE_specifics" not in typ:
                continue
            src = strip_casts(tree)
            if not (isinstance(src, list) and src and src[0] == "member" and src[2] == "specifics"):
                continue
            n += 1
            key = "choice-specifics-of:%s" % tree_text(src[1])
            if any(nd[0] == "var" and nd[1].split("@")[0] == "selected" for nd in walk(src)):
                r.bad(f, key, "`%s` is read as asn_CHOICE_specifics_t, but the selected descriptor is whatever type the object set pairs with "
                              "the identifier: for INTEGER or BOOLEAN specifics is NULL and ->struct_size crashes; the holder to be cleared "
                              "is the open type's own (elm->type)" % tree_text(src), e["line"])
            else:
                r.ok(f, key, "CHOICE specifics taken from the open type's own descriptor", e["line"])
    for i in r.insts:
        i.config = cfg
    return [r]


def r18_2(prog, rid="R18.2"):
    """Identifier cells of an information object set emitted as INTEGER_t literals (the -fwide-types representation)
    denote the identifier.  Wherever the compiler prints a k-octet literal (`"\\x%02x...", k`) for a value v, the
    branches that dominate the call must imply 0 <= v <= 2^(8k-1)-1; otherwise the top bit is set and the literal is
    a negative two's-complement number: the object table row can never match the decoded identifier."""
    from .. import assume
    r = Rule(rid, "INTEGER_t literals printed for object-set identifier cells are non-negative two's-complement encodings of the value", floor=2)
    for f in sorted(prog.funcs.values(), key=lambda f: f.key):
        if "libasn1compiler/" not in f.relfile:
            continue
        dom = None
        for b, i, e in f.calls():
            fmt = None
            fi = None
            for ai, a in enumerate(e.get("args", [])):
                t = a.get("tree")
                if isinstance(t, list) and t and t[0] == "str" and "\\x%02x" in str(t[1]):
                    fmt, fi = str(t[1]), ai
            if fmt is None:
                continue
            k = fmt.count("\\x%02x")
            vars_ = set()
            for a in e["args"][fi + 1:]:
                vars_ |= {n[1] for n in walk(a.get("tree")) if n[0] == "var"}
            if len(vars_) != 1:
                continue
            v = sorted(vars_)[0]
            vt = next(n for a in e["args"][fi + 1:] for n in walk(a.get("tree")) if n[0] == "var" and n[1] == v)
            if dom is None:
                dom = f.dominators()
            facts = []
            for d in dom.get(b.id, ()):
                tb = f.blocks[d]
                if not tb.term or "cond" not in tb.term or len(tb.succ) < 2 or tb.term["kind"] == "SwitchStmt":
                    continue
                for idx, truth in ((0, True), (1, False)):
                    if f.edge_dominates(d, idx, b.id):
                        fo = assume._fact_of(tb.term["cond"]["tree"], truth)
                        if fo is not None:
                            facts.append(fo)
            hi = (1 << (8 * k - 1)) - 1
            ok_hi = assume.fact_query(tuple(facts), ["bin", "<=", vt, ["int", hi]])
            ok_lo = assume.fact_query(tuple(facts), ["bin", ">=", vt, ["int", 0]])
            key = "%d-octet literal of %s" % (k, v.split("@")[0])
            if ok_hi is True and ok_lo is True:
                r.ok(f, key, "dominating branches imply 0 <= %s <= %d" % (v.split("@")[0], hi), e["line"])
            else:
                r.bad(f, key, "a %d-octet literal is printed for %s but the dominating branches do not imply 0 <= %s <= %d: values above "
                              "that bound come out as negative INTEGERs and never match the decoded identifier" % (k, v.split("@")[0], v.split("@")[0], hi), e["line"])
    return r


def r18_3(prog):
    """An open type member without a tag of its own (`v CLASS.&Type({Set}{@id})` outside AUTOMATIC TAGS has tag -1, like
    ANY) is found by the BER tag search.  Wherever a BER decoder accepts `any tag whatsoever` for a member because it is
    flagged ATF_ANY_TYPE, the same condition must admit ATF_OPEN_TYPE: otherwise the library cannot decode its own DER
    output for such a SEQUENCE."""
    r = Rule("R18.3", "BER member search admits an untagged open type wherever it admits ANY", floor=1)
    for f in sorted(prog.funcs.values(), key=lambda f: f.key):
        n = 0
        for b in sorted(f.blocks.values(), key=lambda b: (b.term or {}).get("line") or 0):
            t = b.term
            if not t or "cond" not in t:
                continue
            full = t["cond"].get("full_tree") or t["cond"]["tree"]
            enums = {x[1] for x in walk(full) if x[0] == "enum"}
            if "ATF_ANY_TYPE" not in enums:
                continue
            if "full_tree" not in t["cond"] or t["cond"]["full_tree"] is t["cond"]["tree"]:
                # an operand block of a larger `a || b` condition: judge the whole condition it belongs to
                mine = tree_text(t["cond"]["tree"])
                for b2 in f.blocks.values():
                    ft = (b2.term or {}).get("cond", {}).get("full_tree") if b2.term and "cond" in b2.term else None
                    if ft is not None and mine in tree_text(ft):
                        enums |= {x[1] for x in walk(ft) if x[0] == "enum"}
            n += 1
            key = "any-tag-test#%d" % n
            if "ATF_OPEN_TYPE" in enums:
                r.ok(f, key, "the condition admits ATF_OPEN_TYPE as well", t.get("line"))
            else:
                r.bad(f, key, "members flagged ATF_ANY_TYPE are accepted with any tag here, untagged open types (tag -1, ATF_OPEN_TYPE) are not: "
                              "the BER decoder answers `unexpected tag` to the DER the library produced", t.get("line"))
    return r


def r18_8(progK):
    """The generated selector and the generated alternatives table number the rows alike.  asn1c_lang_C_OpenType() builds
    the open type's alternatives from the rows of the object set and *skips* a row whose cell has no value (a class field
    `&Type OPTIONAL` left out by an object); the selector function emitted by emit_member_type_selector() turns the row it
    found into `presence_index`.  If the first skips rows, the second may not hand out `row + 1`: every identifier after
    an untyped row would select the next alternative's slot for the previous alternative's type."""
    import re
    r = Rule("R18.8", "if the alternatives table skips untyped rows, the emitted selector does not use the raw row number as presence index", floor=1)
    g = progK.require("asn1c_lang_C_OpenType")
    skips = False
    for b in g.blocks.values():
        if not (b.term and "cond" in b.term):
            continue
        ct = b.term["cond"].get("full_tree") or b.term["cond"]["tree"]
        t = strip_casts(ct)
        if isinstance(t, list) and t and t[0] == "un" and t[1] == "!" and any(n[0] == "member" and n[2] == "value" for n in walk(t)):
            skips = True
    f = progK.require("emit_member_type_selector")
    n = 0
    for b, i, e in f.calls():
        if e.get("callee") != "asn1c_compiled_output":
            continue
        for a in e.get("args", []):
            t = strip_casts(a.get("tree"))
            if isinstance(t, list) and t and t[0] == "str" and "presence_index" in t[1] and "=" in t[1] and "result." in t[1]:
                n += 1
                raw = re.search(r"presence_index\s*=\s*row\b", t[1]) is not None
                if raw and skips:
                    r.bad(f, "selector-presence#%d" % n, "the emitted selector answers `%s` while asn1c_lang_C_OpenType leaves rows without a type out of "
                                                         "the alternatives: after such a row the index names the wrong alternative" % t[1].strip(), e["line"])
                else:
                    r.ok(f, "selector-presence#%d" % n, "the presence index is %s" % ("the row number and no row is skipped" if raw else "not the raw row number"), e["line"])
    if n == 0:
        raise AnalysisBroken("emit_member_type_selector no longer emits an assignment to result.presence_index")
    return r


def r18_9(progK):
    """The walkers over an object set's constraint tree agree on what a leaf is.  In asn1fix_cws.c the functions that are
    handed the per-object callback (`process`) form one visitor; an element kind (ACT_*) that one of them passes to the
    callback must reach the callback (or a call that passes the callback on) from the `case` of every other one that
    switches on the kind.  A `case ACT_EL_VALUE: return 0;` next to a union walker that feeds ACT_EL_VALUE elements to
    the callback makes a set of a *single* object an empty table."""
    r = Rule("R18.9", "object-set walkers sharing the per-object callback hand the same element kinds to it", floor=1)
    fam = []
    for f in progK.funcs.values():
        if not f.relfile.endswith("asn1fix_cws.c"):
            continue
        cbs = [p["id"] for p in f.params if "(*)" in p["type"]]
        if cbs:
            fam.append((f, set(cbs)))
    if not fam:
        raise AnalysisBroken("no callback-taking walker found in asn1fix_cws.c")

    def through(e, cbs):
        ct = e.get("callee_tree")
        if ct is not None and is_var(ct) and strip_casts(ct)[1] in cbs:
            return True
        return any(is_var(a.get("tree")) and strip_casts(a["tree"])[1] in cbs for a in e.get("args", []))
    kinds = set()
    for f, cbs in fam:
        dom = f.dominators()
        for b, i, e in f.calls():
            ct = e.get("callee_tree")
            if not (ct is not None and is_var(ct) and strip_casts(ct)[1] in cbs):
                continue
            for d in dom.get(b.id, ()):
                tb = f.blocks[d]
                if tb.term and "cond" in tb.term:
                    for n in walk(tb.term["cond"].get("full_tree") or tb.term["cond"]["tree"]):
                        if n[0] == "enum" and n[1].startswith("ACT_") and any(x[0] == "bin" and x[1] == "==" and any(y is n or y == n for y in walk(x)) for x in walk(tb.term["cond"].get("full_tree") or tb.term["cond"]["tree"])):
                            kinds.add(n[1])
                lab = tb.label or {}
                if lab.get("kind") == "case" and str(lab.get("text", "")).startswith("ACT_"):
                    kinds.add(lab["text"])
    r.note("element kinds handed to the callback somewhere: %s" % sorted(kinds))
    for f, cbs in sorted(fam, key=lambda x: x[0].name):
        for b in f.blocks.values():
            if not (b.term and b.term.get("kind") == "SwitchStmt"):
                continue
            for s_ in b.succs():
                lab = f.blocks[s_].label or {}
                if lab.get("kind") != "case" or lab.get("text") not in kinds:
                    continue
                reach = f.reachable_from([s_])
                hit = any(through(e, cbs) for bid in reach for e in f.blocks[bid].ev if e["k"] == "call")
                key = "case %s" % lab["text"]
                line = (f.blocks[s_].ev[0].get("line") if f.blocks[s_].ev else None) or b.term.get("line")
                if hit:
                    r.ok(f, key, "the callback (or a call passing it on) is reachable from this case", line)
                else:
                    r.bad(f, key, "elements of kind %s are fed to the per-object callback by a sibling walker, but this case returns without it: "
                                  "an object set consisting of one such element yields an empty table" % lab["text"], line)
    return r


def r18_10(prog):
    """Encoder and decoder of one syntax agree on whether alternatives are renumbered.  The PER codecs of CHOICE write the
    *canonical* index (specs->to_canonical_order[]) and read it back through from_canonical_order[]; the open type codecs
    use the object-set row, i.e. the declaration index, on both sides.  For every (encoder, decoder) pair of the runtime
    (`<T>_encode_<syntax>` with `<T>_decode_<syntax>`, and OPEN_TYPE_encode_uper with OPEN_TYPE_uper_get): the encoder
    reads to_canonical_order if and only if the decoder reads from_canonical_order."""
    r = Rule("R18.10", "an encoder maps the alternative index through to_canonical_order exactly when its decoder maps it back through from_canonical_order", floor=20)
    import re as _re
    byname = {f.name: f for f in prog.funcs.values()}

    def reads(f, field):
        return any(n[0] == "member" and n[2] == field for b, l, t in f.all_trees() for n in walk(t))
    pairs = []
    for name, f in sorted(byname.items()):
        m = _re.match(r"^(.*)_encode_(uper|oer|der|xer)$", name)
        if not m:
            continue
        base, syn = m.group(1), m.group(2)
        dec = {"der": "ber"}.get(syn, syn)
        for cand in ("%s_decode_%s" % (base, dec), "%s_%s_get" % (base, dec)):
            if cand in byname:
                pairs.append((f, byname[cand]))
                break
    for enc, dec in pairs:
        e_ = reads(enc, "to_canonical_order")
        d_ = reads(dec, "from_canonical_order")
        key = "%s/%s" % (enc.name, dec.name)
        if e_ == d_:
            r.ok(enc, key, "both sides %s the canonical order maps" % ("use" if e_ else "leave alone"), enc.line, nontrivial=e_)
        else:
            r.bad(enc, key, "%s %s the alternative index through to_canonical_order while %s %s from_canonical_order: what one side "
                            "writes the other reads as a different alternative whenever the map is not the identity" % (
                                enc.name, "maps" if e_ else "does not map", dec.name, "maps it back through" if d_ else "does not use"), enc.line)
    return r


def run(ctx):
    from . import c13
    # R18.4: the holder and the selected alternative are members like any other: their storage is interpreted according to
    # ATF_POINTER (rule R13.3 evaluated over the open type code)
    r4 = c13.r13_3(ctx.prog("S"), load_tables("c13"), rid="R18.4", only=lambda f: f.name.startswith("OPEN_TYPE_"), floor=8)
    # R18.5: the row number answered by the generated selector is an index into the alternatives table only behind a
    # comparison with that table's count (rule R04.2 evaluated over the open type code)
    from . import c04
    r5 = c04.r04_2(ctx.prog("S"), "default", rid="R18.5", only=lambda f: f.name.startswith("OPEN_TYPE_"), floor=4)
    # R18.6: the BER member loop gives the open type getter no more than the enclosing value has left (rule R05.7)
    from . import c05
    r6 = c05.r05_7(ctx.prog("S"), rid="R18.6", only="OPEN_TYPE", floor=1)
    # R18.7: the generator walks the object table's rows and columns against their own counts (rule R10.10 over the code
    # that builds and emits information object tables and type selectors)
    from . import c10
    r7 = c10.r10_10(ctx.prog("K"), load_tables("c10"), rid="R18.7", floor=8,
                    only=lambda f: "ioc" in f.name.lower() or "type_selector" in f.name or "_ioc" in f.relfile)
    return run_config(ctx.prog("S"), "default") + [r18_2(ctx.prog("K")), r18_3(ctx.prog("S")), r4, r5, r6, r7, r18_8(ctx.prog("K")), r18_9(ctx.prog("K")), r18_10(ctx.prog("S"))]


def thorough(ctx):
    from .. import selftest
    import sys
    return selftest.run_mutants("C18", sys.modules[__name__])
