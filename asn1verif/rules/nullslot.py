"""NULL-slot dispatch (R04.1 decode/free/print/compare side, R07.3 encoder side)."""
from ..model import OP_SLOTS
from .. import guards


def null_slot_rule(prog, rule, slots, tab):
    """Every indirect call through op-table slot S: if S is NULL in some op table of this configuration that can
    reach the site, the site must be unreachable under the assumption that the slot expression is NULL."""
    texc = {(x["slot"], x["table"]): x["reason"] for x in tab.get("table_exclusions", [])}
    sexc = {(x["function"], x["key"]): x["reason"] for x in tab.get("site_exceptions", [])}
    n = 0
    for f in sorted(prog.funcs.values(), key=lambda f: f.key):
        for b, i, e in f.calls():
            s = e.get("slot")
            if s not in slots or "asn_TYPE_operation" not in e.get("slot_struct", ""):
                continue
            n += 1
            key = guards.canon(e["callee_tree"])
            nulls = sorted(prog.slot_null.get(s, ()))
            live = [t for t in nulls if (s, t) not in texc]
            if not nulls:
                rule.ok(f, key, "slot %s is non-NULL in all %d op tables" % (s, len(prog.op_tables)), e["line"], nontrivial=False)
                continue
            p = guards.null_reachable(f, e["callee_tree"], b)
            if p is None:
                rule.ok(f, key, "call is unreachable when the slot is NULL (NULL in %s)" % ", ".join(nulls), e["line"])
                continue
            if not live:
                rule.exc(f, key, "slot NULL only in %s: %s" % (", ".join(nulls), "; ".join(texc[(s, t)] for t in nulls)), e["line"])
                continue
            if (f.name, key) in sexc:
                rule.exc(f, key, sexc[(f.name, key)], e["line"])
                continue
            rule.bad(f, key, "slot %s is NULL in %s and this call is reachable without a test of it: NULL function call" % (
                s, ", ".join(live)), e["line"], witness={"path_with_slot_null": guards.path_lines(f, p), "null_in": live})
    return n
