"""C04 decoding arbitrary bytes is memory-safe and terminates — R04.1 NULL-slot dispatch, R04.2 wire-derived table
index, R04.3 fetch results fully discriminated, R04.4 no assert on wire data, R04.5 no unbounded writers."""
from ..engine import Rule, load_tables
from . import nullslot

EXPLANATION = (
    "R04.1: every indirect call through a decode-side op-table slot (ber/xer/oer/uper decoder, free, print, compare, "
    "outmost_tag) whose slot is NULL in at least one op table of the configuration is unreachable under the assumption "
    "that the slot expression is NULL (assume-NULL reachability over the CFG), or the NULL tables provably cannot reach "
    "the site (table exclusions with reasons).")
NOT_DECIDED = ("absence of all out-of-bounds accesses (needs relational numeric reasoning about size/cursor), termination "
               "in general, everything inside generated code")
ASSUMPTIONS = []

DECODE_SIDE = ["ber_decoder", "xer_decoder", "oer_decoder", "uper_decoder", "free_struct", "print_struct",
               "compare_struct", "outmost_tag"]


def run_config(prog, cfg):
    tab = load_tables("nullslot")
    r1 = Rule("R04.1", "no call through a NULL op-table slot on the decode/free/print/compare side", floor=25 if cfg == "default" else 10)
    nullslot.null_slot_rule(prog, r1, DECODE_SIDE, tab)
    for i in r1.insts:
        i.config = cfg
    return [r1]


def run(ctx):
    return run_config(ctx.prog("S"), "default")


def thorough(ctx):
    out = []
    for cfg in ("noper", "nooer", "none"):
        out += run_config(ctx.prog("S", cfg), cfg)
    from .. import selftest
    import sys
    out += selftest.run_mutants("C04", sys.modules[__name__])
    return out
