"""C04 decoding arbitrary bytes is memory-safe and terminates — R04.1 NULL-slot dispatch, R04.2 wire-derived table
index, R04.3 fetch results fully discriminated, R04.4 no assert on wire data, R04.5 no unbounded writers."""
from ..engine import Rule, load_tables
from ..model import strip_casts, is_var
from . import nullslot

EXPLANATION = (
    "R04.1: every indirect call through a decode-side op-table slot (ber/xer/oer/uper decoder, free, print, compare, "
    "outmost_tag) whose slot is NULL in at least one op table of the configuration is unreachable under the assumption "
    "that the slot expression is NULL (assume-NULL reachability over the CFG), or the NULL tables provably cannot reach "
    "the site (table exclusions with reasons). R04.2: every subscript of a descriptor table (elements, tag2el, value2enum, "
    "from/to canonical maps) by a non-constant index is dominated by the bounded edge of an upper-bound comparison of that "
    "index. R04.3: the result of each length/tag fetch routine and PER bit getter is assumed to be each of its sentinels "
    "(0 need-more, -1 error) in turn; no arithmetic use of the result (or of a plain copy) may be reachable under the "
    "assumption. R04.5: writes through a pointer that may alias a fixed stack array are bounded on the edge that selected "
    "the array; no sprintf/strcpy/strcat/gets. R04.6: bytes appended to a heap buffer field are preceded by a reallocation "
    "sized with the fetched length. R04.7: assuming a call that returns asn_dec_rval_t (sub-decoder slot, ber_check_tags, "
    "named decoders) reported RC_FAIL or RC_WMORE, no return with the constant RC_OK is reachable.")
NOT_DECIDED = ("absence of all out-of-bounds accesses (needs relational numeric reasoning about size/cursor), termination "
               "in general, everything inside generated code")
ASSUMPTIONS = []

DECODE_SIDE = ["ber_decoder", "xer_decoder", "oer_decoder", "uper_decoder", "free_struct", "print_struct",
               "compare_struct", "outmost_tag"]


def run_config(prog, cfg):
    tab = load_tables("nullslot")
    r1 = Rule("R04.1", "no call through a NULL op-table slot on the decode/free/print/compare side", floor=25 if cfg == "default" else 10)
    nullslot.null_slot_rule(prog, r1, DECODE_SIDE, tab)
    for i in r1.insts:
        i.config = cfg
    from .sentinels import sentinel_rule
    from . import common
    r3 = Rule("R04.3", "results of the length/tag fetch routines and PER bit getters are never used in arithmetic where a sentinel (0 = need more, -1 = error) is still possible", floor=40 if cfg == "default" else 10)
    cg = prog.callgraph()
    dscope = [prog.funcs[k] for k in cg.reachable(common.slot_functions(prog, common.DECODER_SLOTS))]
    t4 = load_tables("c04")
    sentinel_rule(prog, r3, dscope, {k: tuple(v) for k, v in t4["fetchers"].items()},
                  {(x["function"], x["key"]): x["reason"] for x in t4.get("r04_3_exceptions", [])})
    for i in r3.insts:
        i.config = cfg
    # R04.10: the decoder terminates.  Exact rule over every loop reachable from a decoder, free, print or compare slot and
    # from the decode entry points
    from . import termination
    roots = common.slot_functions(prog, common.DECODER_SLOTS + ["free_struct", "print_struct", "compare_struct"]) | \
        {f.key for f in prog.funcs.values() if not f.static and ("_decode" in f.name or "_fetch_" in f.name or "_skip_" in f.name or "_get_" in f.name)}
    r10 = termination.rule_for(prog, "R04.10", "the decoders (and the free, print and compare functions)", cg.reachable(roots), 60 if cfg == "default" else 20, cfg)
    return [r1, r04_2(prog, cfg), r3, r04_4(prog, cfg), r04_5(prog, cfg), r04_6(prog, cfg), r04_7(prog, cfg), r04_9(prog, cfg), r10, r04_11(prog, cfg), r04_12(prog, cfg)]


def run(ctx):
    return run_config(ctx.prog("S"), "default")


def thorough(ctx):
    out = []
    for cfg in ("noper", "nooer", "none"):
        out += run_config(ctx.prog("S", cfg), cfg)
    from .. import selftest
    import sys
    out += selftest.run_mutants("C04", sys.modules[__name__])
    return out


# ------------------------------------------------------------------------------------------ R04.5
def r04_5(prog, cfg):
    """Heap-or-stack scratch buffers: where a pointer is pointed at a fixed local array, every store `p[i]` and every
    memcpy/memset of n bytes through that pointer must be reached only through a branch edge that implies i < K
    (n <= K), K being the array's element count.  Also: no unbounded libc writers in the skeletons at all."""
    import re
    from ..model import strip_casts, is_var, tree_text, walk
    from .. import assume
    r = Rule("R04.5", "writes through a pointer that may point at a fixed-size stack array are bounded by the array size on the edge that selected the array; no unbounded libc writer is used", floor=4 if cfg == "default" else 0)
    banned = {"strcpy", "strcat", "sprintf", "vsprintf", "gets", "alloca", "__builtin_alloca"}
    for f in sorted(prog.funcs.values(), key=lambda f: f.key):
        for b, i, e in f.calls():
            if e.get("callee") in banned:
                r.bad(f, e["callee"], "unbounded writer %s" % e["callee"], e["line"])
        for b, i, e in f.events("decl"):
            if e.get("vla"):
                r.bad(f, "vla:" + e["var"], "variable-length array `%s`: its size comes from a run-time value" % e["var"], e["line"])
        arrays = {}
        for b, i, e in f.events("decl"):
            if e.get("is_array") and not e.get("static_local") and not e.get("vla"):
                m = re.search(r"\[(\d+)\]", e["type"])
                if m:
                    arrays[e["id"]] = int(m.group(1))
        if not arrays:
            continue
        # holder = array assignments
        assigns = []
        for b, i, e in f.events():
            t = None
            if e["k"] == "assign" and e.get("op") == "=" and "rhs" in e:
                t = strip_casts(e["rhs"]["tree"])
                h = e.get("lhs")
            elif e["k"] == "decl" and "init" in e and "*" in e.get("type", ""):
                t = strip_casts(e["init"]["tree"])
                h = e["var"]
            if t is not None and is_var(t) and t[1] in arrays:
                assigns.append((b, i, h, t[1]))
        # heap allocations into the same holder (the sibling branch of the selection idiom)
        heap_assign = {}
        for b, i, e in f.events("assign"):
            if e.get("op") == "=" and "rhs" in e and set(e["rhs"].get("calls", [])) & {"malloc", "calloc", "realloc"}:
                heap_assign.setdefault(e.get("lhs"), []).append(b.id)
        for ab, ai, holder, arr in assigns:
            K = arrays[arr]
            # selection idiom only: some branch sends one edge to `holder = array` and the other to `holder = malloc(..)`
            selected = False
            for tb in f.blocks.values():
                if not tb.term or "cond" not in tb.term or len(tb.succ) < 2:
                    continue
                for idx in (0, 1):
                    o = tb.succ[1 - idx]
                    if tb.succ[idx] is None or o is None or not f.edge_dominates(tb.id, idx, ab.id):
                        continue
                    if any(hb in f.reachable_from([o], stop=lambda x: x == ab.id) and not f.edge_dominates(tb.id, idx, hb) for hb in heap_assign.get(holder, [])):
                        selected = True
            if not selected:
                continue
            redef = {b.id for b, i, e in f.events("assign") if e.get("lhs") == holder and (b.id, i) != (ab.id, ai)}
            reach = f.reachable_from([ab.id], stop=lambda x: x in redef and x != ab.id)
            for wb, wi, w in f.events():
                if wb.id not in reach or (wb.id == ab.id and wi <= ai):
                    continue
                need = None
                if w["k"] == "subscript" and tree_text(w["basex"]["tree"]) == holder and "const" not in w["index"]:
                    # only stores matter, but a read beyond the array is a defect as well
                    need = ("<", w["index"]["tree"], "index")
                elif w["k"] == "call" and w.get("callee") in ("memcpy", "memmove", "memset") and w["args"] and \
                        tree_text(strip_casts(w["args"][0]["tree"])) == holder and "const" not in w["args"][2]:
                    need = ("<=", w["args"][2]["tree"], "length")
                if need is None:
                    continue
                op, tree, what = need
                key = "%s:%s[%s]" % (holder, arr.split("@")[0], tree_text(tree))
                # a branch edge that dominates the assignment `holder = array` and implies the bound
                q = ["bin", op, tree, ["int", K]]
                ok = False
                for tb in f.blocks.values():
                    if not tb.term or "cond" not in tb.term or len(tb.succ) < 2:
                        continue
                    for idx, truth in ((0, True), (1, False)):
                        if tb.succ[idx] is None or not f.edge_dominates(tb.id, idx, ab.id):
                            continue
                        fo = assume._fact_of(tb.term["cond"]["tree"], truth)
                        if fo is not None and assume.fact_query((fo,), q) is True:
                            ok = True
                if ok:
                    r.ok(f, key, "`%s` points at %s[%d] only on an edge that implies %s %s %d" % (holder, arr.split("@")[0], K, tree_text(tree), op, K), w.get("line"))
                else:
                    r.bad(f, key, "`%s` may point at the %d-element stack array `%s` while the %s `%s` is not known to be %s %d on that path: "
                                  "the write runs past the array for the boundary value" % (holder, K, arr.split("@")[0], what, tree_text(tree), op, K), w.get("line"))
    for i in r.insts:
        i.config = cfg
    return r


# ------------------------------------------------------------------------------------------ R04.6
def r04_6(prog, cfg):
    """Appending decoders: a call that writes `count` units at the end of a heap buffer field (`&st->buf[st->size]`)
    must, on every path from where that count was obtained, first pass a (re)allocation whose size mentions the count."""
    from ..model import strip_casts, is_var, tree_text, walk
    from ..dataflow import reaching_defs
    from .c15 import must_pass
    from . import common
    r = Rule("R04.6", "data appended to a heap buffer field is preceded, on every path from the length fetch, by a reallocation sized with that length", floor=4 if cfg == "default" else 0)
    writers = {"OCTET_STRING_per_get_characters": (1, 2), "per_get_many_bits": (1, 3), "asn_get_many_bits": (1, 3), "memcpy": (0, 2), "memmove": (0, 2)}
    cg = prog.callgraph()
    scope = cg.reachable(common.slot_functions(prog, common.DECODER_SLOTS))
    for k in sorted(scope):
        f = prog.funcs[k]
        rd = None
        for b, i, e in f.calls():
            cal = e.get("callee")
            if cal not in writers:
                continue
            di, ci = writers[cal]
            if max(di, ci) >= len(e["args"]):
                continue
            dt = e["args"][di]["tree"]
            has_buf = any(n[0] == "member" and n[2] == "buf" and n[3] for n in walk(dt))
            has_size = any(n[0] == "member" and n[2] == "size" and n[3] for n in walk(dt))
            if not (has_buf and has_size):
                continue
            cvars = {n[1] for n in walk(e["args"][ci]["tree"]) if n[0] == "var" and n[2] in ("local", "param")}
            if not cvars:
                continue
            if rd is None:
                rd, deftree = reaching_defs(f)
            # derivation closure (both directions, flow-insensitive): len_bytes = raw_len * bpc
            D = set(cvars)
            changed = True
            while changed:
                changed = False
                for b2, i2, e2 in f.events():
                    tgt = tree = None
                    if e2["k"] == "assign" and e2.get("base_id") and not e2.get("deref") and "rhs" in e2:
                        tgt, tree = e2["base_id"], e2["rhs"]["tree"]
                    elif e2["k"] == "decl" and "init" in e2:
                        tgt, tree = e2["id"], e2["init"]["tree"]
                    if tgt is None:
                        continue
                    vs = {n[1] for n in walk(tree) if n[0] == "var" and n[2] == "local"}
                    if tgt in D and (vs - D) and not any(n[0] in ("call", "icall") for n in walk(tree)):
                        D |= vs         # the count is computed from these (len_bits = len_bytes * 8)
                        changed = True
                    if (vs & D) and tgt not in D:
                        D.add(tgt)
                        changed = True
            def is_alloc(x, D=D):
                if x["k"] != "call" or x.get("callee") not in ("realloc", "malloc", "calloc"):
                    return False
                return any(n[0] == "var" and n[1] in D for a in x.get("args", []) for n in walk(a.get("tree")))

            def passes(start, tb_, ti_):
                # like must_pass, with capacity-check blocks as barriers too
                st_, seen_ = [start], set()
                while st_:
                    x_ = st_.pop()
                    if x_ in seen_:
                        continue
                    seen_.add(x_)
                    blk_ = f.blocks[x_]
                    evs_ = blk_.ev[:ti_] if x_ == tb_ else blk_.ev
                    if any(is_alloc(y) for y in evs_):
                        continue
                    if x_ in cap_blocks and x_ != tb_:
                        continue
                    if x_ == tb_:
                        return False
                    st_.extend(blk_.succs())
                return True
            # capacity-tracking idiom: `if(allocated <= needed) realloc` — the skip edge of a comparison between a value
            # derived from the count and another non-constant value is as good as the allocation itself
            cap_blocks = set()
            for tb in f.blocks.values():
                if tb.term and "cond" in tb.term:
                    c = strip_casts(tb.term["cond"]["tree"])
                    if isinstance(c, list) and c[0] == "bin" and c[1] in ("<", "<=", ">", ">="):
                        from ..model import const_of
                        lv = {n[1] for n in walk(c[2]) if n[0] == "var"}
                        rv_ = {n[1] for n in walk(c[3]) if n[0] == "var"}
                        if const_of(c[2]) is None and const_of(c[3]) is None and ((lv & D and rv_ - D) or (rv_ & D and lv - D) or (lv & D and rv_ & D)):
                            cap_blocks.add(tb.id)
            key = "%s(%s, %s)" % (cal, tree_text(dt), tree_text(e["args"][ci]["tree"]))
            bad = None
            here = rd.get((b.id, i), {})
            for v in cvars:
                for (db, dx) in here.get(v, ()):
                    if not passes(db, b.id, i) and not (db == b.id and any(is_alloc(x) for x in f.blocks[db].ev[dx:i])):
                        bad = (v, db)
            if bad is None:
                r.ok(f, key, "every path from the definition of the count to this append passes a (re)allocation sized with it", e["line"])
            else:
                r.bad(f, key, "`%s` units are appended at the end of the buffer on a path from the definition of `%s` that passes no (re)allocation "
                              "sized with it: the buffer keeps an earlier size and the write runs past it" % (
                                  tree_text(e["args"][ci]["tree"]), bad[0].split("@")[0]), e["line"])
    for i in r.insts:
        i.config = cfg
    return r


# ------------------------------------------------------------------------------------------ R04.2
TABLE_FIELDS = {"elements", "value2enum", "enum2value", "tag2el", "tag2el_cxer", "from_canonical_order", "to_canonical_order",
                "oms", "tags", "all_tags"}
# which count fields measure which table (a bound taken from another table's count is the wrong bound)
TABLE_COUNTS = {"elements": {"elements_count"}, "value2enum": {"map_count"}, "enum2value": {"map_count"},
                "tag2el": {"tag2el_count"}, "tag2el_cxer": {"tag2el_cxer_count"},
                "from_canonical_order": {"elements_count"}, "to_canonical_order": {"elements_count"},
                "oms": {"roms_count", "aoms_count"}, "tags": {"tags_count"}, "all_tags": {"all_tags_count"}}
ALL_COUNTS = set().union(*TABLE_COUNTS.values())


def r04_2(prog, cfg, rid="R04.2", slots=None, floor=None, only=None):
    """Every subscript of a descriptor table (td->elements, specs->value2enum, specs->oms, ...) in code reachable from a
    decoder, free or print slot, whose index is not a constant and not made of descriptor fields only, is reached only
    through the bounded edge of an upper-bound comparison of that index (loop condition, range test with a failing
    exit)."""
    from ..model import strip_casts, is_var, tree_text, walk, const_of
    from . import common
    from .. import guards
    r = Rule(rid, "descriptor tables are indexed only behind an upper-bound comparison of the index with that table's own count", floor=(12 if cfg == "default" else 0) if floor is None else floor)
    cg = prog.callgraph()
    scope = cg.reachable(common.slot_functions(prog, slots or (common.DECODER_SLOTS + ["free_struct", "print_struct", "compare_struct"])))
    exc = {(x["function"], x["key"]): x["reason"] for x in load_tables("c04").get("r04_2_exceptions", [])}
    for k in sorted(scope):
        f = prog.funcs[k]
        if only is not None and not only(f):
            continue
        params = {p["id"] for p in f.params}
        for b, i, e in f.events("subscript"):
            bt = e["basex"]["tree"]
            if not ({x[2] for x in walk(bt) if x[0] == "member"} & TABLE_FIELDS):
                continue
            if "const" in e["index"]:
                continue
            it = strip_casts(e["index"]["tree"])
            # index made only of descriptor fields (td->tags_count - 1): fixed by the type, not by data
            ivars = [x for x in walk(it) if x[0] == "var"]
            if ivars and all(x[2] == "param" and ("asn_TYPE_descriptor" in x[3] or "specifics" in x[3]) for x in ivars) and \
                    all(x[0] != "member" or True for x in walk(it)):
                r.ok(f, "%s[%s]" % (tree_text(bt), tree_text(it)), "index is a function of the type descriptor only", e["line"], nontrivial=False)
                continue
            # an element number recorded in a tag map (t2m[edx].el_no): written by the compiler or by this encoder's own
            # bounded loop, not by the structure being encoded
            if any(x[0] == "member" and x[2] == "el_no" for x in walk(it)):
                r.ok(f, "%s[%s]" % (tree_text(bt), tree_text(it)), "index is an element number stored in a tag-to-member map", e["line"], nontrivial=False)
                continue
            # the subject: a local variable, or a member expression like selected.presence_index
            core = it
            if isinstance(core, list) and core[0] == "bin" and core[1] in ("-", "+") and const_of(core[3]) is not None:
                core = strip_casts(core[2])
            subj_keys = {guards.canon(core)}
            key = "%s[%s]" % (tree_text(bt), tree_text(it))
            if is_var(core):
                # a local that is only ever a copy of another expression (size_t edx = ctx->step): tests of that
                # expression bound the copy too
                dts = []
                for db, di, de in f.events():
                    if de["k"] == "decl" and de.get("id") == core[1] and "init" in de:
                        dts.append(de["init"]["tree"])
                    elif de["k"] == "assign" and de.get("base_id") == core[1] and not de.get("deref") and de.get("lhs") == de.get("base"):
                        dts.append(de["rhs"]["tree"] if de.get("op") == "=" and "rhs" in de else None)
                if len(dts) == 1 and dts[0] is not None:
                    d0 = strip_casts(dts[0])
                    if isinstance(d0, list) and d0[0] in ("member", "var"):
                        subj_keys.add(guards.canon(d0))
            # edges on which an upper bound of the subject is known to hold
            bounded = set()
            wrong_bounds = []
            off_by_one = []
            for tb in f.blocks.values():
                if not tb.term or "cond" not in tb.term or len(tb.succ) < 2:
                    continue
                c = strip_casts(tb.term["cond"]["tree"])
                if not (isinstance(c, list) and c[0] == "bin" and c[1] in ("<", "<=", ">", ">=")):
                    continue
                l, rr = strip_casts(c[2]), strip_casts(c[3])
                op = c[1]
                other = rr
                if guards.canon(rr) in subj_keys and guards.canon(l) not in subj_keys:
                    op = {"<": ">", "<=": ">=", ">": "<", ">=": "<="}[op]
                    other = l
                elif guards.canon(l) not in subj_keys:
                    continue
                # the bound is a count field of the descriptor: it must be the count of the table being indexed
                ocounts = {x[2] for x in walk(other) if x[0] == "member" and x[2] in ALL_COUNTS}
                tfields = {x[2] for x in walk(bt) if x[0] == "member"} & TABLE_FIELDS
                if ocounts and not (ocounts & set().union(*[TABLE_COUNTS[t_] for t_ in tfields])):
                    wrong_bounds.append((tb.term.get("line"), sorted(ocounts)))
                    continue
                # compared with the table's own count (+- a constant): the arithmetic must come out at index <= count - 1.
                # index = subject + k; the edge gives subject <= count + c (- 1 when the comparison is strict)
                if ocounts:
                    oc = other
                    c_ = 0
                    if isinstance(oc, list) and oc[0] == "bin" and oc[1] in ("-", "+") and const_of(oc[3]) is not None:
                        c_ = const_of(oc[3]) * (1 if oc[1] == "+" else -1)
                        oc = strip_casts(oc[2])
                    if isinstance(oc, list) and oc[0] == "member" and oc[2] in ALL_COUNTS:
                        k_ = 0
                        if isinstance(it, list) and it[0] == "bin" and it[1] in ("-", "+") and const_of(it[3]) is not None and core is not it:
                            k_ = const_of(it[3]) * (1 if it[1] == "+" else -1)
                        d_ = 0 if op in ("<", ">=") else 1
                        if c_ + d_ + k_ > 0:
                            # `if(present == 0 || present > count) fail; else present--;`: a decrement of the subject on
                            # every path from the bounded edge to the access takes the slack out again
                            from .c15 import must_pass
                            edge = tb.succ[0 if op in ("<", "<=") else 1]
                            svid = core[1] if is_var(core) else None

                            def decr(y, svid=svid):
                                return (svid is not None and y["k"] == "assign" and y.get("base_id") == svid and not y.get("deref") and y.get("lhs") == y.get("base")
                                        and (y.get("op") in ("--", "--post") or (y.get("op") == "-=" and "rhs" in y and (const_of(y["rhs"]["tree"]) or 0) >= c_ + d_ + k_)))
                            if not (c_ + d_ + k_ == 1 and edge is not None and must_pass(f, edge, b.id, i, decr)):
                                off_by_one.append((tb.term.get("line"), tree_text(c)))
                                continue
                bounded.add((tb.id, 0 if op in ("<", "<=") else 1))
            # definitions of the subject variable (entry for parameters and member subjects)
            starts = []
            trusted_defs = set()
            if is_var(core):
                vid = core[1]
                for db, di, de in f.events():
                    if (de["k"] == "assign" and de.get("base_id") == vid and not de.get("deref") and de.get("lhs") == de.get("base")) or \
                            (de["k"] == "decl" and de.get("id") == vid):
                        if de["k"] == "assign" and (de.get("op") in ("--", "--post") or (de.get("op") == "-=" and (const_of(de["rhs"]["tree"]) or 0) > 0)):
                            continue        # a decrement keeps whatever upper bound was established (`present--` after the range test)
                        dtree = (de.get("rhs") or de.get("init") or {}).get("tree")
                        dt0 = strip_casts(dtree) if dtree is not None else None
                        # value read out of a descriptor table (from_canonical_order[value]): fixed by the type
                        if isinstance(dt0, list) and dt0 and dt0[0] == "sub" and ({x[2] for x in walk(dt0[1]) if x[0] == "member"} & TABLE_FIELDS):
                            trusted_defs.add(db.id)
                            continue
                        starts.append(db.id)
                    elif de["k"] == "call" and any(isinstance(strip_casts(a.get("tree")), list) and strip_casts(a["tree"])[0] == "un" and strip_casts(a["tree"])[1] == "&"
                                                   and is_var(strip_casts(a["tree"])[2], vid) for a in de.get("args", [])):
                        starts.append(db.id)
            if len(subj_keys) > 1:
                starts = []          # a pure copy of another expression: the bound must hold from the entry on
            if not starts:
                starts = [f.entry]
            # the value was just read out of a descriptor table in this very block
            last_def_trusted = False
            if is_var(core):
                for j in range(i - 1, -1, -1):
                    de = b.ev[j]
                    if (de["k"] == "assign" and de.get("base_id") == core[1] and not de.get("deref") and de.get("lhs") == de.get("base")) or \
                            (de["k"] == "decl" and de.get("id") == core[1]):
                        dt0 = strip_casts(((de.get("rhs") or de.get("init") or {}).get("tree")))
                        last_def_trusted = isinstance(dt0, list) and dt0 and dt0[0] == "sub" and bool({x[2] for x in walk(dt0[1]) if x[0] == "member"} & TABLE_FIELDS)
                        break
            ok = 1
            for sb in (set() if last_def_trusted else set(starts)):
                pth = guards.reach_path(f, sb, b.id, bounded, stop_blocks=(set(starts) | trusted_defs) - {sb})
                if pth is not None and not (sb == b.id and len(pth) == 1 and False):
                    # a definition in the same block as the access, before it, with no test in between
                    ok = None
                    witness = pth
                    break
            if ok is not None:
                ok = "several" if len(bounded) > 1 else (f.blocks[next(iter(bounded))[0]].term.get("line") if bounded else None)
                if not bounded and not last_def_trusted:
                    ok = None
                if last_def_trusted:
                    ok = "table"
            if ok is not None:
                r.ok(f, key, "reached only through the bounded edge of the comparison at line %s" % ok, e["line"])
            elif (f.name, key) in exc:
                r.exc(f, key, exc[(f.name, key)], e["line"])
            else:
                extra = ""
                if wrong_bounds:
                    extra = " (the comparison at line %s bounds it by %s, which measures a different table)" % (wrong_bounds[0][0], ", ".join(wrong_bounds[0][1]))
                if off_by_one:
                    extra += " (the comparison `%s` at line %s lets the index equal the count: one entry past the table)" % (off_by_one[0][1], off_by_one[0][0])
                r.bad(f, key, "`%s` indexes a descriptor table with `%s`, and no upper-bound comparison of that index with the table's own count "
                              "guards the access on every path%s: a value taken from the input (or an ill-formed structure) reads past the "
                              "table" % (tree_text(bt), tree_text(it), extra), e["line"])
    for i in r.insts:
        i.config = cfg
    return r


# ------------------------------------------------------------------------------------------ R04.7
def r04_7(prog, cfg):
    """A failed (RC_FAIL) or starved (RC_WMORE) sub-decoder / tag check is never turned into RC_OK.

    Sites: every call whose result type is asn_dec_rval_t inside a function that is reachable from a decoder slot and
    itself returns asn_dec_rval_t.  The result must be held; assuming its .code is RC_FAIL (then RC_WMORE), the CFG is
    explored with every branch on the result decided by the assumption: no return whose code is the constant RC_OK may
    be reachable (returning the result itself, or a code copied from it, is fine).  Without this the out-parameters of the
    failed call (the length of ber_check_tags, the half-built member) are used as if they were valid."""
    from .. import assume
    from . import common
    from ..retabs import dec_return
    t4 = load_tables("c04")
    exc = {(x["function"], x["key"]): x["reason"] for x in t4.get("r04_7_exceptions", [])}
    r = Rule("R04.7", "a failing or starved sub-decoder / tag check never becomes RC_OK: its out-parameters are not used as valid data", floor=40 if cfg == "default" else 10)
    cg = prog.callgraph()
    scope = cg.reachable(common.slot_functions(prog, common.DECODER_SLOTS))
    for k in sorted(scope):
        f = prog.funcs[k]
        if "asn_dec_rval" not in f.ret_type:
            continue

        def classify(b, i, e, env=None, f=f):
            env = env or {}
            ex = e.get("expr")
            t = strip_casts(ex["tree"]) if ex else None
            if is_var(t):
                v = env.get((t[1], "code"))
                if isinstance(v, int):
                    return "success" if v == 0 else "fail"
            d = dec_return(f, b, i, e)
            c = d.get("code", "unknown")
            if c == "RC_OK":
                return "success"
            if c in ("RC_FAIL", "RC_WMORE"):
                return "fail"
            if c.startswith("child:"):
                return "unknown:child"      # the result of another call: that call decides (a later site of this rule)
            return "unknown:" + c
        for b, i, e in f.calls():
            if "asn_dec_rval" not in e.get("ret_type", ""):
                continue
            name = e.get("callee") or ("->" + e["slot"] if e.get("slot") else "indirect")
            key = name
            use = e.get("use")
            if (f.name, key) in exc:
                r.exc(f, key, exc[(f.name, key)], e["line"])
                continue
            if use == "returned":
                r.ok(f, key, "result returned to the caller", e["line"], nontrivial=False)
                continue
            if use in ("discarded", "voidcast"):
                r.bad(f, key, "result of the sub-decoder is discarded: its failure is invisible and its outputs are used regardless", e["line"])
                continue
            subj = assume.subject_of_call(e, "code")
            if subj is None:
                r.bad(f, key, "result of the sub-decoder is used as `%s` and never tested" % use, e["line"])
                continue
            bad = None
            for v in (2, 1):
                hits = assume.explore(f, b, i, subj, v, classify, origin_callid=e.get("id"), from_entry=False)
                if any(h[0] == "success" for h in hits):
                    hits = assume.explore(f, b, i, subj, v, classify, origin_callid=e.get("id"), from_entry=True)
                for kind, rb, ri, re_, path, lost in hits:
                    if kind == "success":
                        bad = (v, rb, re_, path, lost)
                        break
                if bad:
                    break
            if bad is None:
                r.ok(f, key, "assuming the call returned RC_FAIL / RC_WMORE, no RC_OK return is reachable", e["line"])
            else:
                v, rb, re_, path, lost = bad
                from .. import guards
                r.bad(f, key, "assuming this call returned %s, control reaches the RC_OK return at line %s%s: the failure is "
                      "swallowed and the call's outputs are used as valid" % ({2: "RC_FAIL", 1: "RC_WMORE"}[v], re_.get("line"),
                                                                               " (the result was overwritten on the way)" if lost else ""),
                      e["line"], witness={"path": guards.path_lines(f, path), "assumed": v})
    for i in r.insts:
        i.config = cfg
    return r


# ------------------------------------------------------------------------------------------ R04.4
def _wire_taint(f):
    """(tainted scalar locals, pointers into the input): input = const byte/void pointer parameters; a value is tainted
    when it is read through such a pointer, returned by or written (through &local) by a call that was given such a
    pointer, or computed from a tainted value."""
    from ..model import walk
    ptrs = set()
    for p in f.params:
        t = p["type"].replace("const ", "").strip()
        if t in ("void *", "uint8_t *", "char *", "unsigned char *") and "const" in p["type"]:
            ptrs.add(p["id"])
    T = set()

    def has_ptr(t):
        return any(m[0] == "var" and m[1] in ptrs for m in walk(t))

    def tainted_tree(t):
        for n in walk(t):
            if n[0] == "var" and n[1] in T:
                return True
            if n[0] == "un" and n[1] == "*" and has_ptr(n[2]):
                return True
            if n[0] == "sub" and has_ptr(n[1]):
                return True
            if n[0] in ("call", "icall") and any(has_ptr(a) for a in n[3] if isinstance(a, list)):
                return True
        return False
    changed = True
    while changed:
        changed = False
        for b, i, e in f.events():
            if e["k"] == "call":
                args = [a.get("tree") for a in e.get("args", [])]
                if any(a is not None and has_ptr(a) for a in args):
                    for a in args:
                        t = strip_casts(a)
                        if isinstance(t, list) and t and t[0] == "un" and t[1] == "&" and is_var(t[2]) and strip_casts(t[2])[1] not in T:
                            T.add(strip_casts(t[2])[1])
                            changed = True
            tgt = tree = None
            if e["k"] == "assign" and e.get("base_id") and not e.get("deref") and e.get("lhs") == e.get("base") and "rhs" in e:
                tgt, tree = e["base_id"], e["rhs"]["tree"]
            elif e["k"] == "decl" and "init" in e:
                tgt, tree = e["id"], e["init"]["tree"]
            if tgt is None:
                continue
            if tgt not in T and tainted_tree(tree):
                T.add(tgt)
                changed = True
            elif tgt not in ptrs and tgt not in T and has_ptr(tree) and "*" in (e.get("base_type") or e.get("type") or ""):
                ptrs.add(tgt)
                changed = True
    return T, ptrs


def r04_4(prog, cfg):
    """No assertion on data taken from the encoding.  In everything reachable from a decoder slot, an assert() whose
    condition reads a wire-tainted value must be implied by the branches that dominate it (their conditions, taken on
    the dominating edge, decide the asserted comparison); otherwise a crafted input aborts the process instead of
    producing RC_FAIL.  Asserts over untainted values (descriptor invariants, sizeof checks) are counted, not decided."""
    from .. import assume
    from . import common
    from ..model import walk, tree_text
    t4 = load_tables("c04")
    exc = {(x["function"], x["key"]): x["reason"] for x in t4.get("r04_4_exceptions", [])}
    r = Rule("R04.4", "no assertion on a value taken from the encoding unless the dominating branches imply it", floor=8 if cfg == "default" else 0)
    cg = prog.callgraph()
    scope = cg.reachable(common.slot_functions(prog, common.DECODER_SLOTS))
    n_plain = 0
    for k in sorted(scope):
        f = prog.funcs[k]
        asserts = [(b, i, e) for b, i, e in f.calls() if e.get("callee") == "__assert_fail"]
        if not asserts:
            continue
        T, ptrs = _wire_taint(f)
        dom = f.dominators()
        for b, i, e in asserts:
            text = ""
            if e.get("args"):
                for nd in walk(e["args"][0].get("tree")):
                    if nd[0] == "str":
                        text = str(nd[1])
                        break
            key = "assert(%s)" % " ".join(text.split())[:60]
            # the branch whose failing edge enters the assert block
            ctl = None
            for p in f.blocks.values():
                if p.term and "cond" in p.term and b.id in [s for s in p.succ if s is not None]:
                    ctl = p
            if ctl is None:
                n_plain += 1
                continue
            tree = ctl.term["cond"].get("full_tree") or ctl.term["cond"]["tree"]
            tv = sorted({n[1].split("@")[0] for n in walk(tree) if n[0] == "var" and n[1] in T})
            if not tv:
                n_plain += 1
                r.ok(f, key, "condition reads no value derived from the input", e["line"], nontrivial=False)
                continue
            # facts from edge-dominating branches
            facts = []
            for d in dom.get(ctl.id, ()):
                tb = f.blocks[d]
                if d == ctl.id or not tb.term or "cond" not in tb.term or len(tb.succ) < 2 or tb.term["kind"] == "SwitchStmt":
                    continue
                for idx, truth in ((0, True), (1, False)):
                    if f.edge_dominates(d, idx, ctl.id):
                        fo = assume._fact_of(tb.term["cond"]["tree"], truth)
                        if fo is not None:
                            facts.append(fo)
            # which edge of ctl enters the assert: the condition must hold on the other one
            fail_idx = [idx for idx, s in enumerate(ctl.succ) if s == b.id][0]
            implied = assume.fact_query(tuple(facts), ctl.term["cond"]["tree"])
            holds = (implied is True and fail_idx == 1) or (implied is False and fail_idx == 0)
            if holds:
                r.ok(f, key, "implied by the dominating branches", e["line"])
            elif (f.name, key) in exc:
                r.exc(f, key, exc[(f.name, key)], e["line"])
            else:
                r.bad(f, key, "asserts on %s, which derive from the encoding, and no dominating branch establishes it: a crafted "
                              "input aborts the process instead of failing the decode" % ", ".join(tv), e["line"])
    r.note("%d assertions over values not derived from the input (not decided)" % n_plain)
    for i in r.insts:
        i.config = cfg
    return r


# ------------------------------------------------------------------------------------------ R04.9
def r04_11(prog, cfg):
    """A buffer that was just found to be empty is not read.  For every read `X->buf[k]` / `*X->buf`: not every path to it
    runs through the zero edge of a test of `X->size` (with no assignment to X->size in between).  On such a path the
    buffer holds no octets -- and may be NULL, which is how an empty value is represented."""
    from ..model import strip_casts, is_var, tree_text, walk
    from .. import guards
    r = Rule("R04.11", "the octets of a value buffer are not read where its size is known to be zero", floor=25 if cfg == "default" else 8)
    for f in sorted(prog.funcs.values(), key=lambda f: f.key):
        sizes_tested = set()
        for b in f.blocks.values():
            if b.term and "cond" in b.term:
                for n in walk(b.term["cond"].get("full_tree") or b.term["cond"]["tree"]):
                    if n[0] == "member" and n[2] == "size" and n[3] and is_var(n[1]):
                        sizes_tested.add(strip_casts(n[1])[1])
        if not sizes_tested:
            continue
        n = 0
        for b, i, e in f.events("subscript"):
            bt = strip_casts(e["basex"]["tree"])
            if not (isinstance(bt, list) and bt and bt[0] == "member" and bt[2] == "buf" and bt[3] and is_var(bt[1])):
                continue
            xid = strip_casts(bt[1])[1]
            if xid not in sizes_tested:
                continue
            n += 1
            key = "%s[%s]#%d" % (tree_text(bt), tree_text(e["index"]["tree"]), n)
            stxt = tree_text(["member", bt[1], "size", True, bt[4]])
            zero_edges = guards.edges_given(f, lambda t, stxt=stxt: isinstance(t, list) and guards.canon(t) == stxt, "nonzero")
            if not zero_edges:
                r.ok(f, key, "no truth test of %s in this function" % stxt, e["line"], nontrivial=False)
                continue
            # blocks that give the size a new value end the knowledge
            resets = {b2.id for b2, i2, y in f.events("assign") if y.get("lhs_tree") is not None and tree_text(strip_casts(y["lhs_tree"])) == stxt}
            resets |= {b2.id for b2, i2, y in f.events("assign") if is_var(y.get("lhs_tree"), xid)}
            pth = guards.reach_path(f, f.entry, b.id, zero_edges)
            if pth is not None:
                r.ok(f, key, "reachable without passing the zero edge of a test of %s" % stxt, e["line"])
                continue
            # every path passes a zero edge: is the size reassigned after the last one on every path?  (conservative: any
            # reassignment block that can reach the read clears the finding)
            if any(b.id in f.reachable_from([rb]) for rb in resets):
                r.ok(f, key, "%s is assigned again before the read" % stxt, e["line"])
                continue
            r.bad(f, key, "every path to this read of `%s` takes the edge on which `%s` is zero: the buffer is empty (and may be NULL) there" % (tree_text(bt), stxt), e["line"])
    for i_ in r.insts:
        i_.config = cfg
    return r


def r04_12(prog, cfg, rid="R04.12", slots=None, floor=None):
    """A type's function is called with that type's descriptor.  Every call through an op-table slot (`D->op->slot(...)`)
    or through a constraint slot (`D->encoding_constraints.general_constraints`, `elm->encoding_constraints...`) passes,
    as its descriptor argument, the very descriptor the slot was taken from (`D`; for a member's own checker the
    member's type, `elm->type`).  Handing a decoder, printer or checker another type's descriptor makes it interpret
    the structure with the wrong member table and specifics (140 call sites agree)."""
    from ..model import strip_casts, tree_text
    r = Rule(rid, "a function taken from a descriptor's slot is called with that same descriptor", floor=(100 if cfg == "default" else 40) if floor is None else floor)
    for f in sorted(prog.funcs.values(), key=lambda f: f.key):
        n = 0
        for b, i, e in f.calls():
            ct = e.get("callee_tree")
            if not e.get("slot") or ct is None or (slots is not None and e["slot"] not in slots):
                continue
            t = strip_casts(ct)
            if not (isinstance(t, list) and t and t[0] == "member"):
                continue
            base = strip_casts(t[1])
            exp = None
            if isinstance(base, list) and base and base[0] == "member" and base[2] == "op":
                exp = tree_text(strip_casts(base[1]))
            elif isinstance(base, list) and base and base[0] == "member" and base[2] == "encoding_constraints":
                owner = tree_text(strip_casts(base[1]))
                exp = owner + "->type" if "asn_TYPE_member" in str(base[4]) else owner
            if exp is None:
                continue
            pts = e.get("param_types") or []
            ai = next((k for k, p_ in enumerate(pts) if "asn_TYPE_descriptor" in p_), None)
            if ai is None or ai >= len(e.get("args", [])):
                continue
            got = tree_text(strip_casts(e["args"][ai]["tree"]))
            n += 1
            key = "->%s#%d" % (e["slot"], n)
            if got.lstrip("&*") == exp.lstrip("&*"):
                r.ok(f, key, "called with `%s`, the descriptor the slot was read from" % got, e["line"])
            else:
                r.bad(f, key, "the function is taken from `%s` but is given the descriptor `%s`: it will read that structure with another type's "
                              "member table, specifics and constraints" % (tree_text(ct), got), e["line"])
    for i_ in r.insts:
        i_.config = cfg
    return r


def r04_9(prog, cfg):
    """Every direct read of the input is preceded by a look at how much input there is.  In the BER and OER decoders
    (functions with a `const <byte or void> *buf, size_t size` parameter pair reachable from those slots), a dereference
    or subscript of the buffer pointer (or of a local pointer derived from it) is dominated by a branch whose condition
    mentions the size parameter (or a local derived from it), or by a branch/switch on the result of a header fetcher
    that was given the buffer (its positive answer vouches for the octets it looked at).  This is a necessary
    condition only: which comparison it is, and whether it is the right one, is numeric."""
    from . import common
    from ..model import walk
    t4 = load_tables("c04")
    exc = {(x["function"], x["key"]): x["reason"] for x in t4.get("r04_9_exceptions", [])}
    fetchers = set(t4["fetchers"].keys())
    r = Rule("R04.9", "a direct read through the input pointer is dominated by a test of the remaining size or of a header fetcher's result", floor=30 if cfg == "default" else 0)
    cg = prog.callgraph()
    scope = cg.reachable(common.slot_functions(prog, ["ber_decoder", "oer_decoder"]))
    for k in sorted(scope):
        f = prog.funcs[k]
        pairs = []
        for i, p in enumerate(f.params[:-1]):
            t = p["type"].replace("const ", "").strip()
            if "const" in p["type"] and t in ("void *", "uint8_t *", "char *") and f.params[i + 1]["type"].strip() in ("size_t", "ssize_t"):
                pairs.append((p["id"], f.params[i + 1]["id"]))
        for bp, sz in pairs:
            al, szs = {bp}, {sz}
            ch = True
            while ch:
                ch = False
                for b, i, e in f.events():
                    tgt = tree = None
                    if e["k"] == "decl" and "init" in e:
                        tgt, tree = e["id"], e["init"]["tree"]
                    elif e["k"] == "assign" and e.get("lhs") == e.get("base") and not e.get("deref") and "rhs" in e:
                        tgt, tree = e.get("base_id"), e["rhs"]["tree"]
                    if not tgt or tree is None:
                        continue
                    isptr = "*" in (e.get("type") or e.get("base_type") or "")
                    if isptr and tgt not in al and any(n[0] == "var" and n[1] in al for n in walk(tree)):
                        al.add(tgt)
                        ch = True
                    if not isptr and tgt not in szs and not any(n[0] in ("call", "icall") for n in walk(tree)) \
                            and any(n[0] == "var" and n[1] in szs for n in walk(tree)):
                        szs.add(tgt)
                        ch = True
            # results of fetchers that were handed the buffer
            fres = set()
            for b, i, e in f.calls():
                if e.get("callee") in fetchers and any(n[0] == "var" and n[1] in al for a in e.get("args", []) for n in walk(a.get("tree"))):
                    ui = e.get("useinfo", {})
                    v = ui.get("var") or (strip_casts(ui["lhs_tree"])[1] if ui.get("lhs_tree") is not None and is_var(ui["lhs_tree"]) else None)
                    if v:
                        fres.add(v)
            # lengths taken from the encoding: locals a fetcher writes through an out-parameter, and copies of them
            wire_lens = set()
            for b, i, e in f.calls():
                if e.get("callee") in fetchers:
                    for a in e.get("args", []):
                        t = strip_casts(a.get("tree"))
                        if isinstance(t, list) and t and t[0] == "un" and t[1] == "&" and is_var(t[2]):
                            wire_lens.add(strip_casts(t[2])[1])
            ch = True
            while ch:
                ch = False
                for b, i, e in f.events():
                    tgt = tree = None
                    if e["k"] == "decl" and "init" in e:
                        tgt, tree = e["id"], e["init"]["tree"]
                    elif e["k"] == "assign" and e.get("lhs") == e.get("base") and not e.get("deref") and "rhs" in e and e.get("op") == "=":
                        tgt, tree = e.get("base_id"), e["rhs"]["tree"]
                    if tgt and tgt not in wire_lens and tree is not None and is_var(tree) and strip_casts(tree)[1] in wire_lens:
                        wire_lens.add(tgt)
                        ch = True
            dom = f.dominators()
            n = 0
            for b, i, e in sorted(f.events(), key=lambda z: (z[2].get("line") or 0, z[0].id, z[1])):
                if not (e["k"] in ("deref", "subscript") and e.get("base_id") in al):
                    continue
                n += 1
                key = "read#%d:%s" % (n, (e.get("lhs") or tree_text(e.get("tree")) or "")[:40])
                why = None
                varbound = []
                for d in dom.get(b.id, ()):
                    tb = f.blocks[d]
                    if not tb.term or "cond" not in tb.term:
                        continue
                    if d == b.id:
                        # the read may be part of this block's own condition: only earlier blocks vouch for it
                        continue
                    vs = {x[1] for x in walk(tb.term["cond"].get("full_tree") or tb.term["cond"]["tree"]) if x[0] == "var"}
                    if vs & szs:
                        # the size test must still speak about the cursor being read: no later re-assignment of the cursor without
                        # a further size test is checked here (numeric); a test anywhere above counts
                        ct_ = tb.term["cond"].get("full_tree") or tb.term["cond"]["tree"]
                        others = (vs - szs - al) & wire_lens
                        has_const = any(x[0] in ("int", "sizeof") for x in walk(ct_))
                        if others and not has_const:
                            # `len > size`: vouches for `len` octets, which is none when len is 0
                            varbound.append((tb.term.get("line"), others))
                        else:
                            why = "size test at line %s" % tb.term.get("line")
                    elif vs & fres:
                        # a fetcher vouches for the octets it looked at, i.e. for the cursor as it was: the cursor must not have
                        # been advanced between that test and the read
                        moved = False
                        # blocks on a way from the test to the read that does not come back through the test
                        reach = (f.reachable_from([s_ for s_ in tb.succ if s_ is not None], stop=lambda x, d=d: x == d)
                                 & f.reachable_from([b.id], stop=lambda x, d=d: x == d, forward=False)) - {d}
                        for bid in reach:
                            for j, y in enumerate(f.blocks[bid].ev):
                                if bid == b.id and j >= i:
                                    break
                                if y["k"] == "assign" and y.get("base_id") == e.get("base_id") and y.get("lhs") == y.get("base") and not y.get("deref"):
                                    moved = True
                        if not moved:
                            why = why or "test of a fetcher result at line %s (cursor not advanced since)" % tb.term.get("line")
                if not why and varbound:
                    # the only size tests compare the size with a decoded length: they vouch for a first octet only if the
                    # length is known to be non-zero (some dominating branch tests the length by itself)
                    for ln, others in varbound:
                        # the length, or anything computed from it (`bend = b + len`, tested as `b < bend`)
                        others = set(others)
                        ch2 = True
                        while ch2:
                            ch2 = False
                            for b3, i3, e3 in f.events():
                                tgt = tree = None
                                if e3["k"] == "decl" and "init" in e3:
                                    tgt, tree = e3["id"], e3["init"]["tree"]
                                elif e3["k"] == "assign" and e3.get("lhs") == e3.get("base") and not e3.get("deref") and "rhs" in e3:
                                    tgt, tree = e3.get("base_id"), e3["rhs"]["tree"]
                                if tgt and tgt not in others and tgt not in szs and tree is not None and any(x[0] == "var" and x[1] in others for x in walk(tree)):
                                    others.add(tgt)
                                    ch2 = True
                        for d in dom.get(b.id, ()):
                            tb = f.blocks[d]
                            if d == b.id or not tb.term or "cond" not in tb.term:
                                continue
                            vs = {x[1] for x in walk(tb.term["cond"].get("full_tree") or tb.term["cond"]["tree"]) if x[0] == "var"}
                            if (vs & others) and not (vs & szs):
                                why = "size test against a length at line %s, and the length is tested by itself at line %s" % (ln, tb.term.get("line"))
                    if not why:
                        zl = "the size is only compared with a decoded length (line %s) that is never tested by itself: a zero length passes the test and " \
                             "this reads the octet after the data" % varbound[0][0]
                        if (f.name, key) in exc:
                            r.exc(f, key, exc[(f.name, key)], e["line"])
                        else:
                            r.bad(f, key, zl, e["line"])
                        continue
                if why:
                    r.ok(f, key, why, e["line"])
                elif (f.name, key) in exc:
                    r.exc(f, key, exc[(f.name, key)], e["line"])
                else:
                    r.bad(f, key, "the input is read here and no dominating branch looks at the remaining size (or at a header fetcher's "
                                  "result): with an empty or exhausted buffer this reads past the data that was presented", e["line"])
    for i_ in r.insts:
        i_.config = cfg
    return r
