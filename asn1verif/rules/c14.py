"""C14 structure lifecycle — R14.1 local allocations released or handed over on every exit, R14.2 allocation results
tested before use, R14.3 free functions complete, R14.4 CHOICE presence set around the member decode, R14.5 no
self-assigning realloc."""
from ..engine import Rule, load_tables
from ..extract import AnalysisBroken
from ..model import walk, strip_casts, is_var, const_of, tree_text
from .. import ownership, guards
from . import common

EXPLANATION = (
    "R14.1/R14.2: for every allocation (malloc/calloc/realloc/strdup and allocating helpers) whose result is held in a "
    "local pointer, a path-sensitive walk from the site follows the block through its alias group: it must be freed, "
    "handed over (stored through a pointer or field, returned, passed to a consuming function) or moved by realloc "
    "before every return; a second free on a path is a double free; assuming the allocation failed, no dereference or "
    "index of the holder may be reachable. Branches are decided by the holder's (non-)NULL assumption, comparisons "
    "with a stack array, constants assigned on the path (guard flags) and facts of earlier branches. R14.5: no "
    "`x = realloc(x, n)`. R14.3: every function in a free_struct slot handles the three disposal methods, frees the "
    "structure on FREE_EVERYTHING and zeroes it on RESET. R14.4: CHOICE decoders set the presence index so that "
    "CHOICE_free finds a half-built member.")
NOT_DECIDED = "leak freedom across calls beyond the named mechanisms; allocation failure inside libc"
ASSUMPTIONS = ["malloc/calloc/realloc/free have their ISO C ownership semantics"]


def r14_1_2_5(prog, tab):
    r1 = Rule("R14.1", "a function-local allocation is released or handed over on every exit; nothing is freed twice", floor=60)
    r2 = Rule("R14.2", "the result of an allocation is not dereferenced or indexed on a path where it is NULL", floor=60)
    r5 = Rule("R14.5", "no `x = realloc(x, n)` (the block is lost when realloc fails)", floor=10)
    summ = ownership.Summaries(prog, tab)
    summ.close_alloc_funcs()
    r1.note("allocating helpers: %s" % sorted(summ.alloc_funcs))
    r1.note("releasing helpers: %s" % {k: sorted(v) for k, v in sorted(summ.release.items())})
    exc = {(x["rule"], x["function"], x["key"]): x["reason"] for x in tab.get("exceptions", [])}
    for f in sorted(prog.funcs.values(), key=lambda f: f.key):
        if common.is_random_fill(prog, f):
            continue    # random fill is outside the property's statement (decode/encode/free)
        for b, i, e in f.calls():
            if not summ.is_alloc_call(e):
                continue
            cal = e.get("callee")
            # R14.5
            if cal == "realloc":
                ui = e.get("useinfo", {})
                a0 = guards.canon(e["args"][0]["tree"]) if e["args"] else ""
                lhs = guards.canon(ui["lhs_tree"]) if ui.get("lhs_tree") else None
                key = "realloc:%s" % a0
                if lhs is not None and lhs == a0:
                    r5.bad(f, key, "`%s = realloc(%s, ...)`: on failure the only pointer to the block is overwritten with NULL" % (lhs, a0), e["line"])
                else:
                    r5.ok(f, key, "result stored in a different lvalue (%s)" % (lhs or e.get("use")), e["line"])
            group, esc = ownership.holders_of_site(f, b, i, e)
            key = "%s->%s" % (cal, ",".join(sorted(v.split("@")[0] for v in group)) or ("<nonlocal>" if esc else e.get("use")))
            if not group:
                if e.get("use") in ("discarded", "voidcast"):
                    r1.bad(f, key, "allocation result discarded", e["line"])
                else:
                    r1.ok(f, key, "result stored directly into non-local storage or returned (not a function-local allocation)", e["line"], nontrivial=False)
                continue
            finds, _, _ = ownership.walk_site(f, b, i, e, summ, "owned")
            finds = [x for x in finds if x["kind"] != "returned-owned"]
            ek = ("R14.1", f.name, key)
            if not finds:
                r1.ok(f, key, "freed, handed over or moved on every path to a return", e["line"])
            elif ek in exc:
                r1.exc(f, key, exc[ek], e["line"])
            else:
                for fd in finds[:3]:
                    what = {"leak": "return at line %s reached while the block is still owned by %s" % (fd.get("line"), ", ".join(h.split("@")[0] for h in fd.get("holders", []))),
                            "lost": "last holder overwritten at line %s while it still owns the block" % fd.get("line"),
                            "double-free": "freed a second time at line %s" % fd.get("line"),
                            "state-limit": "path exploration limit reached (not decided)"}[fd["kind"]]
                    r1.bad(f, key + (":" + fd["kind"] if fd["kind"] != "leak" else ""), what, e["line"],
                           witness={"kind": fd["kind"], "at_line": fd.get("line"), "path": guards.path_lines(f, list(fd["path"]))})
            nf, _, _ = ownership.walk_site(f, b, i, e, summ, "null")
            ek = ("R14.2", f.name, key)
            if not nf:
                r2.ok(f, key, "no dereference or index of the holder is reachable when the allocation failed", e["line"])
            elif ek in exc:
                r2.exc(f, key, exc[ek], e["line"])
            else:
                fd = nf[0]
                r2.bad(f, key, "if this allocation fails, `%s` at line %s uses the NULL result" % (fd.get("what"), fd.get("line")), e["line"],
                       witness={"at_line": fd.get("line"), "path": guards.path_lines(f, list(fd["path"]))})
    return [r1, r2, r5]


def r14_8(prog, tab, summ=None):
    """A local structure that the function itself empties somewhere is emptied on every way out.  Belief rule: if a
    function releases the contents of a local (non-pointer) structure object X -- ASN_STRUCT_FREE_CONTENTS_ONLY(.., &X),
    a free_struct(.., &X, method != FREE_EVERYTHING) or free(X.field) -- it believes X can own heap memory after the
    calls that were handed &X (directly or through a local pointer initialised with &X).  Then every path from each
    such call to a return must pass a release of X."""
    from .c15 import must_pass
    r = Rule("R14.8", "a local structure whose contents the function releases somewhere is released on every path from each call that may fill it to a return", floor=8)
    exc = {(x["rule"], x["function"], x["key"]): x["reason"] for x in tab.get("exceptions", [])}
    for f in sorted(prog.funcs.values(), key=lambda f: f.key):
        if common.is_random_fill(prog, f):
            continue
        locals_ = {}
        for b, i, e in f.events("decl"):
            t = e.get("type", "")
            if "*" in t or e.get("is_array") or e.get("static_local"):
                continue
            if t.endswith("_t") or t.startswith("struct "):
                locals_[e["id"]] = t
        if not locals_:
            continue
        # pointers initialised / assigned with &X
        alias = {}
        for b, i, e in f.events():
            tree = tgt = None
            if e["k"] == "decl" and "init" in e:
                tgt, tree = e["id"], e["init"]["tree"]
            elif e["k"] == "assign" and e.get("op") == "=" and e.get("lhs") == e.get("base") and "rhs" in e:
                tgt, tree = e.get("base_id"), e["rhs"]["tree"]
            if tree is None:
                continue
            t = strip_casts(tree)
            if isinstance(t, list) and t and t[0] == "un" and t[1] == "&" and is_var(t[2]) and strip_casts(t[2])[1] in locals_:
                alias[tgt] = strip_casts(t[2])[1]

        def mentions_addr(tree, X):
            for n in walk(tree):
                if n[0] == "un" and n[1] == "&" and is_var(n[2]):
                    v = strip_casts(n[2])[1]
                    if v == X or alias.get(v) == X:
                        return True
                if n[0] == "var" and alias.get(n[1]) == X:
                    return True
            return False

        def is_release(x, X):
            if x["k"] != "call":
                return False
            cal = x.get("callee")
            if cal in ("free",):
                return any(n[0] == "member" and is_var(n[1], X) for a in x.get("args", []) for n in walk(a.get("tree")))
            if x.get("slot") == "free_struct" or (cal or "").endswith("_free"):
                return any(mentions_addr(a.get("tree"), X) for a in x.get("args", []))
            return False
        for X, typ in sorted(locals_.items()):
            rel = [(b, i, x) for b, i, x in f.calls() if is_release(x, X)]
            if not rel:
                continue
            fills = [(b, i, x) for b, i, x in f.calls() if not is_release(x, X) and x.get("callee") not in ("memset", "memcpy", "__assert_fail")
                     and any(mentions_addr(a.get("tree"), X) for a in x.get("args", []))]
            # blocks where the obligation is settled: a release call, a hand-over of X's fields (`st->buf = X.buf`, `*st = X`),
            # or a branch on one of X's fields that guards a release (nothing to release on the other edge)
            def hands_over(y):
                if y["k"] != "assign" or "rhs" not in y or y.get("base_id") == X:
                    return False
                return any((n[0] == "member" and is_var(n[1], X)) or is_var(n, X) for n in [strip_casts(y["rhs"]["tree"])] + list(walk(y["rhs"]["tree"])))

            def settles(y):
                return is_release(y, X) or hands_over(y)
            guard_blocks = set()
            for gb in f.blocks.values():
                if gb.term and "cond" in gb.term and any(n[0] == "member" and is_var(n[1], X) for n in walk(gb.term["cond"].get("full_tree") or gb.term["cond"]["tree"])):
                    if any(s_ is not None and any(is_release(y, X) for y in f.blocks[s_].ev) for s_ in gb.succ):
                        guard_blocks.add(gb.id)

            def leaks_from(starts, rb, ri):
                """is (rb, ri) reachable from the start blocks without passing a settling event or a guard block?"""
                st_, seen_ = list(starts), set()
                while st_:
                    bid = st_.pop()
                    if bid in seen_ or bid is None:
                        continue
                    seen_.add(bid)
                    blk = f.blocks[bid]
                    evs = blk.ev[:ri] if bid == rb.id else blk.ev
                    if any(settles(y) for y in evs):
                        continue
                    if bid == rb.id:
                        return True
                    if bid in guard_blocks:
                        continue
                    st_.extend(blk.succs())
                return False
            n = 0
            for b, i, x in sorted(fills, key=lambda z: (z[2].get("line") or 0, z[0].id, z[1])):
                n += 1
                key = "%s:%s#%d" % (X.split("@")[0], x.get("callee") or ("->" + x["slot"] if x.get("slot") else "indirect"), n)
                bad = None
                # an int-returning filler tested in place: on its failure edge (non-zero) it has left nothing behind
                starts = list(b.succs())
                if not x.get("ret_type", "").rstrip().endswith("*") and "rval" not in x.get("ret_type", "") and x.get("ret_type", "") != "void":
                    # follow the straight line to the branch that tests this very call (directly, or as an arm of ?:)
                    cur, hops = b, 0
                    while cur is not None and hops < 4:
                        if cur.term and "cond" in cur.term and len(cur.succ) >= 2:
                            ct = strip_casts(cur.term["cond"].get("full_tree") or cur.term["cond"]["tree"])
                            direct = isinstance(ct, list) and ct and ((ct[0] in ("call", "icall") and ct[1] == x.get("id")) or
                                                                      (ct[0] == "cond" and any(isinstance(a, list) and strip_casts(a) and strip_casts(a)[0] in ("call", "icall")
                                                                                               and strip_casts(a)[1] == x.get("id") for a in ct[2:4])))
                            if direct:
                                starts = [cur.succ[1]]
                            break
                        nxt = cur.succs()
                        cur = f.blocks[nxt[0]] if len(nxt) == 1 else None
                        hops += 1
                for rb, ri, re_ in f.returns():
                    if rb.id == b.id and ri > i:
                        if not any(settles(y) for y in b.ev[i + 1:ri]):
                            bad = re_
                            break
                        continue
                    if any(settles(y) for y in b.ev[i + 1:]) or b.id in guard_blocks:
                        continue
                    if leaks_from(starts, rb, ri):
                        bad = re_
                        break
                ek = ("R14.8", f.name, key)
                if bad is None:
                    r.ok(f, key, "every path to a return passes a release (or hand-over) of %s" % X.split("@")[0], x["line"])
                elif ek in exc:
                    r.exc(f, key, exc[ek], x["line"])
                else:
                    r.bad(f, key, "after this call was handed &%s, the return at line %s is reachable without releasing the contents of %s "
                                  "(which the function releases elsewhere): what the call allocated into it leaks" % (X.split("@")[0], bad.get("line"), X.split("@")[0]), x["line"])
    return r


def r14_9(prog, tab):
    """Cleanup of a zero-initialised slot array covers every slot.  A slot-array releaser is a function that frees
    `p[i].field` for i below an integer parameter and then p itself.  Where the array handed to it was obtained from
    calloc(N, ...) in the same function, the bound passed must be that N: the unused slots are zero (free(NULL) is
    harmless), while any smaller bound -- typically the progress counter of the filling loop -- skips the slot that
    was being filled when the failure happened."""
    r = Rule("R14.9", "a calloc'ed slot array is released over its whole allocated count, not over a progress counter", floor=1)
    # releasers
    rel = {}
    for f in prog.funcs.values():
        if len(f.params) != 2 or "*" not in f.params[0]["type"]:
            continue
        p0, p1 = f.params[0]["id"], f.params[1]["id"]
        frees_elem = frees_arr = False
        for b, i, e in f.calls():
            if e.get("callee") != "free" or not e["args"]:
                continue
            t = strip_casts(e["args"][0]["tree"])
            if is_var(t, p0):
                frees_arr = True
            elif isinstance(t, list) and t and t[0] == "member" and any(n[0] == "sub" and is_var(n[1], p0) for n in walk(t)):
                frees_elem = True
        bounded = any(bl.term and "cond" in bl.term and any(n[0] == "var" and n[1] == p1 for n in walk(bl.term["cond"]["tree"])) for bl in f.blocks.values())
        if frees_elem and frees_arr and bounded:
            rel[f.name] = f
    r.note("slot-array releasers: %s" % sorted(rel))
    for f in sorted(prog.funcs.values(), key=lambda f: f.key):
        allocs = {}
        for b, i, e in f.calls():
            if e.get("callee") == "calloc" and e.get("use") in ("assigned", "init") and len(e["args"]) == 2:
                ui = e.get("useinfo", {})
                v = ui.get("var") or (strip_casts(ui["lhs_tree"])[1] if ui.get("lhs_tree") is not None and is_var(ui["lhs_tree"]) else None)
                if v:
                    allocs[v] = tree_text(strip_casts(e["args"][0]["tree"]))
        if not allocs:
            continue
        n = 0
        for b, i, e in sorted(f.calls(), key=lambda z: (z[2].get("line") or 0)):
            if e.get("callee") not in rel or len(e["args"]) != 2:
                continue
            a0 = strip_casts(e["args"][0]["tree"])
            if not is_var(a0) or a0[1] not in allocs:
                continue
            n += 1
            key = "%s(%s)#%d" % (e["callee"], a0[1].split("@")[0], n)
            bound = tree_text(strip_casts(e["args"][1]["tree"]))
            if bound == allocs[a0[1]]:
                r.ok(f, key, "released over the allocated count `%s`" % bound, e["line"])
            else:
                r.bad(f, key, "the array was obtained from calloc(%s, ...) but is released over `%s`: the slot that was being filled when the "
                              "failure happened is skipped and its buffer leaks" % (allocs[a0[1]], bound), e["line"])
    return r


def r14_10(prog, tab):
    """A failed default_value_set() (it allocates the member and can run out of memory) fails the operation.  For every
    call through the default_value_set slot: assuming it answered non-zero, no successful return of the enclosing codec
    function is reachable (encoders: encoded >= 0; decoders: RC_OK)."""
    from .. import assume
    from ..retabs import dec_return
    from . import c07
    r = Rule("R14.10", "a failed default_value_set (allocation failure) makes the enclosing encode/decode fail", floor=4)
    for f in sorted(prog.funcs.values(), key=lambda f: f.key):
        sites = [(b, i, e) for b, i, e in f.calls() if e.get("slot") == "default_value_set"]
        if not sites:
            continue
        if "asn_enc_rval" in f.ret_type:
            classify = c07.make_classifier(f)
        elif "asn_dec_rval" in f.ret_type:
            def classify(rb, ri, re_, env=None, f=f):
                env = env or {}
                ex = re_.get("expr")
                t = strip_casts(ex["tree"]) if ex else None
                if is_var(t):
                    v = env.get((t[1], "code"))
                    if isinstance(v, int):
                        return "success" if v == 0 else "fail"
                d = dec_return(f, rb, ri, re_)
                c = d.get("code", "unknown")
                return "success" if c == "RC_OK" else ("fail" if c in ("RC_FAIL", "RC_WMORE") else "unknown:" + c)
        else:
            continue
        n = 0
        for b, i, e in sorted(sites, key=lambda z: z[2].get("line") or 0):
            n += 1
            key = "default_value_set#%d" % n
            subj = assume.subject_of_call(e, None)
            if subj is None:
                r.bad(f, key, "result of default_value_set is discarded: when it cannot allocate, the member is silently left unset", e["line"])
                continue
            bad = None
            for fe in (False, True):
                hits = assume.explore(f, b, i, subj, -1, classify, origin_callid=e.get("id"), from_entry=fe)
                bad = next((h for h in hits if h[0] == "success"), None)
                if bad is None and not any(h[0].startswith("unknown") for h in hits):
                    break       # decided without the entry context; otherwise classify again with the facts from the entry
            if bad is None:
                r.ok(f, key, "assuming it failed, no successful return is reachable", e["line"])
            else:
                kind, rb, ri, re_, path, lost = bad
                r.bad(f, key, "assuming default_value_set failed, control reaches the successful return at line %s: an allocation failure is "
                              "swallowed and the result differs from the fault-free one" % re_.get("line"), e["line"],
                      witness={"path": guards.path_lines(f, list(path))})
    return r


def r14_11(prog, tab):
    """A slot of an array of owned buffers is claimed before it can be filled.  Pattern: a cleanup loop releases
    `A[n].<field>` for n below a local counter C.  Wherever the address of the slot at the counter, `&A[C]`, is stored in
    a variable that a later call receives (the collecting callback's key), C must be incremented on every path from
    that store to the call: otherwise a failure inside the call leaves the slot that was being filled outside the
    cleanup loop's range and its buffer leaks."""
    from .c15 import must_pass
    r = Rule("R14.11", "the counter that bounds the cleanup of a slot array is advanced before the slot at the counter can be filled", floor=1)
    for f in sorted(prog.funcs.values(), key=lambda f: f.key):
        # cleanup loops: free(A[n].field) inside a loop whose condition compares n with a local counter C
        pairs = set()
        for h, body in f.loops():
            hb = f.blocks[h]
            for bid in body:
                for e in f.blocks[bid].ev:
                    if e["k"] == "call" and e.get("callee") == "free" and e["args"]:
                        t = strip_casts(e["args"][0]["tree"])
                        if isinstance(t, list) and t and t[0] == "member":
                            sub = strip_casts(t[1])
                            if isinstance(sub, list) and sub and sub[0] == "sub" and is_var(strip_casts(sub[1])) and is_var(strip_casts(sub[2])):
                                A, nvar = strip_casts(sub[1])[1], strip_casts(sub[2])[1]
                                for bb in body:
                                    tb = f.blocks[bb]
                                    if tb.term and "cond" in tb.term:
                                        c = strip_casts(tb.term["cond"]["tree"])
                                        if isinstance(c, list) and c and c[0] == "bin" and c[1] in ("<", "!=") and is_var(strip_casts(c[2]), nvar) and is_var(strip_casts(c[3])):
                                            pairs.add((A, strip_casts(c[3])[1]))
        for A, C in sorted(pairs):
            n = 0
            for b, i, e in f.events("assign"):
                if e.get("op") != "=" or "rhs" not in e or not e.get("base_id") or e.get("lhs") != e.get("base"):
                    continue
                t = strip_casts(e["rhs"]["tree"])
                if not (isinstance(t, list) and t and t[0] == "un" and t[1] == "&"):
                    continue
                sub = strip_casts(t[2])
                if not (isinstance(sub, list) and sub and sub[0] == "sub" and is_var(strip_casts(sub[1]), A) and is_var(strip_casts(sub[2]), C)):
                    continue
                holder = e["base_id"]
                n += 1
                key = "%s=&%s[%s]#%d" % (holder.split("@")[0], A.split("@")[0], C.split("@")[0], n)

                def bumps(y, C=C):
                    return y["k"] == "assign" and y.get("base_id") == C and y.get("op") in ("++", "++post", "+=")
                bad = None
                for b2, i2, x in f.calls():
                    if x.get("callee") in ("memset", "free") or not any(is_var(strip_casts(a.get("tree")), holder) for a in x.get("args", [])):
                        continue
                    if b2.id == b.id and i2 > i:
                        okp = any(bumps(y) for y in b.ev[i + 1:i2])
                    elif b2.id not in f.reachable_from([b.id]) or b2.id == b.id:
                        continue
                    else:
                        okp = any(bumps(y) for y in b.ev[i + 1:]) or all(must_pass(f, s_, b2.id, i2, bumps) for s_ in b.succs())
                    if not okp:
                        bad = x
                        break
                if bad is None:
                    r.ok(f, key, "%s is advanced before any call receives the slot" % C.split("@")[0], e["line"])
                else:
                    r.bad(f, key, "the slot `%s[%s]` is handed to the call at line %s before %s is advanced: when that call fails after allocating "
                                  "into the slot, the cleanup loop (bounded by %s) skips it and the buffer leaks" % (
                                      A.split("@")[0], C.split("@")[0], bad.get("line"), C.split("@")[0], C.split("@")[0]), e["line"])
    return r


# ------------------------------------------------------------------------------------------ R14.12 / R14.13
ALLOCS = ("malloc", "calloc")


def _alloc_rhs(t):
    """the rhs is an allocation, directly or through a chained assignment (`st->buf = buf = MALLOC(n)`)"""
    t = strip_casts(t)
    while isinstance(t, list) and t and t[0] == "bin" and t[1] == "=":
        t = strip_casts(t[3])
    return isinstance(t, list) and t and t[0] == "call" and t[2] in ALLOCS


def _buf_sites(f):
    for b, i, e in f.events("assign"):
        lt = strip_casts(e.get("lhs_tree"))
        if not (isinstance(lt, list) and lt and lt[0] == "member" and lt[2] == "buf" and lt[3] and is_var(lt[1])):
            continue
        if e.get("op") != "=" or "rhs" not in e:
            continue
        yield b, i, e, lt


def r14_12(prog, tab, summ=None):
    """Decoding over a structure that already holds a value does not leak the old value.  Every `X->buf = <allocation>`
    where X may be a structure handed in by the caller (not one allocated on this path) is reached only after the old
    buffer was released (free(X->buf)), X->buf was seen to be NULL, or X was zeroed/allocated on the way."""
    r = Rule("R14.12", "a value buffer of a caller-provided structure is replaced by a new allocation only after the old buffer was released (or seen to be NULL)", floor=5)
    summ = summ or ownership.Summaries(prog, tab)
    exc = {(x["rule"], x["function"], x["key"]): x["reason"] for x in tab.get("exceptions", [])}
    for f in sorted(prog.funcs.values(), key=lambda f: f.key):
        if common.is_random_fill(prog, f):
            continue
        n = 0
        for b, i, e, lt in _buf_sites(f):
            rt = strip_casts(e["rhs"]["tree"])
            is_alloc = _alloc_rhs(rt)
            if not is_alloc:
                continue
            xid = strip_casts(lt[1])[1]
            ltxt = tree_text(lt)
            n += 1
            key = "%s=alloc#%d" % (ltxt, n)
            # blocks that settle the matter: free(X->buf), X->buf = <anything> earlier, X = fresh allocation, memset(X)
            settle = set()
            for b2, i2, y in f.events():
                if (b2.id, i2) == (b.id, i):
                    continue
                hit = False
                if y["k"] == "call":
                    for aj in summ.releases(y):
                        if aj < len(y["args"]) and tree_text(strip_casts(y["args"][aj]["tree"])) == ltxt:
                            hit = True
                    if y.get("callee") == "memset" and y["args"] and is_var(y["args"][0]["tree"], xid):
                        hit = True
                elif y["k"] == "assign" and y.get("op") == "=" and y.get("lhs_tree") is not None:
                    l2 = strip_casts(y["lhs_tree"])
                    if tree_text(l2) == ltxt and "rhs" in y and const_of(y["rhs"]["tree"]) == 0:
                        hit = True
                    if is_var(l2, xid) and "rhs" in y and _alloc_rhs(y["rhs"]["tree"]):
                        hit = True
                elif y["k"] == "decl" and y.get("id") == xid and "init" in y and _alloc_rhs(y["init"]["tree"]):
                    hit = True
                if hit and not (b2.id == b.id and i2 > i):
                    settle.add(b2.id)
            same_block_before = any(True for b2, i2, y in f.events() if b2.id == b.id and i2 < i and b2.id in settle)
            if b.id in settle and not same_block_before:
                settle.discard(b.id)
            # edges on which X->buf is known to be NULL
            dead = guards.edges_given(f, lambda t, ltxt=ltxt: isinstance(t, list) and guards.canon(t) == ltxt, "nonzero")
            if same_block_before:
                pth = None
            else:
                pth = guards.reach_path(f, f.entry, b.id, dead, stop_blocks=settle)
                if pth is not None and any(x in settle for x in pth[:-1]):
                    pth = None
            ek = ("R14.12", f.name, key)
            if pth is None:
                r.ok(f, key, "reached only after the old buffer was released, found NULL, or the structure was allocated/zeroed here", e["line"])
            elif ek in exc:
                r.exc(f, key, exc[ek], e["line"])
            else:
                r.bad(f, key, "`%s` is overwritten with a new allocation on a path where the structure may already hold a buffer (decoding over "
                              "a previous value without a reset): the old buffer is lost" % ltxt, e["line"], witness={"path": guards.path_lines(f, pth)})
    return r


def r14_13(prog, tab, summ=None):
    """A structure that comes out of a failed allocation is still a structure: `buf == NULL` goes with `size == 0`
    (der_encode_primitive asserts it; INTEGER_encode_oer, the printers and comparators read buf[0..size)).  For every
    `X->buf = <allocation>` whose result is tested: if the size field may be non-zero at that point (it was assigned
    something other than 0, or the old buffer was just freed), then on every path along the NULL edge to a return the
    size is set to 0, or the structure itself is released or zeroed."""
    r = Rule("R14.13", "when the allocation of a value buffer fails, the structure is left with size 0 (or is released)", floor=5)
    summ = summ or ownership.Summaries(prog, tab)
    for f in sorted(prog.funcs.values(), key=lambda f: f.key):
        if common.is_random_fill(prog, f):
            continue
        n = 0
        for b, i, e, lt in _buf_sites(f):
            rt = strip_casts(e["rhs"]["tree"])
            if not _alloc_rhs(rt):
                continue
            xid = strip_casts(lt[1])[1]
            ltxt = tree_text(lt)
            stxt = tree_text(["member", lt[1], "size", True, lt[4]])
            aliases = set()
            t = rt
            while isinstance(t, list) and t and t[0] == "bin" and t[1] == "=":
                if is_var(t[2]):
                    aliases.add(strip_casts(t[2])[1])
                t = strip_casts(t[3])

            def subj(t, ltxt=ltxt, aliases=aliases):
                return isinstance(t, list) and (guards.canon(t) == ltxt or (is_var(t) and strip_casts(t)[1] in aliases))
            dead = guards.edges_given(f, subj, "zero")
            if not dead:
                continue                  # the result is never tested: R14.1's business
            n += 1
            key = "%s=alloc#%d" % (ltxt, n)

            def classify(y, ltxt=ltxt, stxt=stxt, xid=xid):
                """'zero' / 'stale' / None for an event, as to what it says about X->size"""
                if y["k"] == "assign" and y.get("lhs_tree") is not None:
                    l2 = strip_casts(y["lhs_tree"])
                    if tree_text(l2) == stxt:
                        return "zero" if (y.get("op") == "=" and "rhs" in y and const_of(y["rhs"]["tree"]) == 0) else "stale"
                    if is_var(l2, xid) and y.get("op") == "=" and "rhs" in y and _alloc_rhs(y["rhs"]["tree"]):
                        return "zero"
                if y["k"] == "decl" and y.get("id") == xid and "init" in y and _alloc_rhs(y["init"]["tree"]):
                    return "zero"
                if y["k"] == "call":
                    if y.get("callee") == "memset" and y["args"] and is_var(y["args"][0]["tree"], xid):
                        return "zero"
                    for aj in summ.releases(y):
                        if aj < len(y["args"]):
                            at = strip_casts(y["args"][aj]["tree"])
                            if tree_text(at) == ltxt:
                                return "stale"          # the old buffer is gone, the old size is still there
                            if is_var(at, xid):
                                return "zero"           # the structure itself is gone
                return None
            # backwards: what may the size be when the allocation is made?
            stale = False
            seen = set()
            st_ = [(b.id, i)]
            while st_ and not stale:
                bid, upto = st_.pop()
                blk = f.blocks[bid]
                evs = blk.ev[:upto] if upto is not None else blk.ev
                verdict = None
                for y in reversed(evs):
                    verdict = classify(y)
                    if verdict:
                        break
                if verdict == "stale":
                    stale = True
                elif verdict is None:
                    for p_ in blk.preds:
                        if p_ not in seen:
                            seen.add(p_)
                            st_.append((p_, None))
            if not stale:
                r.ok(f, key, "the size field is 0 (or untouched since entry, with the buffer NULL) when the allocation is attempted", e["line"])
                continue
            # forwards along the NULL edge
            bad = None
            if not any(classify(y) == "zero" for y in b.ev[i + 1:]):
                settle = {bb.id for bb in f.blocks.values() if any(classify(y) == "zero" for y in bb.ev)}
                for rb, ri, re_ in f.returns():
                    if rb.id in settle and any(classify(y) == "zero" for y in rb.ev[:ri]):
                        continue
                    pth = guards.reach_path(f, b.id, rb.id, dead, stop_blocks=settle - {b.id})
                    if pth is not None and not any(x in settle for x in pth[1:]):
                        bad = (re_, pth)
                        break
            if bad is None:
                r.ok(f, key, "on the NULL edge every return is preceded by `%s = 0` (or the release of the structure)" % stxt, e["line"])
            else:
                r.bad(f, key, "when this allocation fails the function returns at line %s with `%s` NULL and `%s` still non-zero: the next "
                              "encoder, printer or comparison reads `size` bytes from a NULL buffer (or trips assert(st->buf || st->size == 0))" % (
                                  bad[0].get("line"), ltxt, stxt), e["line"], witness={"path": guards.path_lines(f, bad[1])})
    return r


def run(ctx):
    prog = ctx.prog("S")
    tab = load_tables("c14")
    return r14_1_2_5(prog, tab) + [r14_3(prog, tab), r14_4(prog, tab), r14_6(prog, tab), r14_7(prog, tab), r14_8(prog, tab), r14_9(prog, tab), r14_10(prog, tab), r14_11(prog, tab), r14_12(prog, tab), r14_13(prog, tab)]


def thorough(ctx):
    from .. import selftest
    import sys
    return selftest.run_mutants("C14", sys.modules[__name__])


# ------------------------------------------------------------------------------------------ R14.3
def r14_3(prog, tab):
    from .c15 import must_pass
    r = Rule("R14.3", "free functions handle the three disposal methods: free the structure on FREE_EVERYTHING, zero it on "
                      "UNDERLYING_AND_RESET, never free it on UNDERLYING, tolerate NULL, and release what decoders park in ctx->ptr", floor=40)
    en = prog.enums.get("asn_struct_free_method")
    if not en:
        raise AnalysisBroken("enum asn_struct_free_method not found")
    vals = {n: v for n, v in en["enumerators"]}
    need = {"ASFM_FREE_EVERYTHING", "ASFM_FREE_UNDERLYING", "ASFM_FREE_UNDERLYING_AND_RESET"}
    if not need <= set(vals):
        raise AnalysisBroken("asn_struct_free_method lost an enumerator: %s" % sorted(vals))
    for name in sorted(prog.slot_funcs["free_struct"]):
        f = prog.func(name)
        if f is None:
            continue
        if len(f.params) < 3:
            raise AnalysisBroken("%s: free_struct signature changed" % name)
        ptr = f.params[1]["id"]
        meth = f.params[2]["id"]
        sw = [b for b in f.blocks.values() if b.term and b.term["kind"] == "SwitchStmt" and is_var(b.term["cond"]["tree"], meth)]
        if not sw:
            r.bad(f, "switch(method)", "no switch on the disposal method: the three methods are not distinguished", f.line)
            continue
        b = sw[-1] if len(sw) == 1 else sorted(sw, key=lambda x: x.id)[0]
        cases = {}
        for s in b.succs():
            lab = f.blocks[s].label or {}
            if lab.get("kind") == "case":
                cases[lab.get("value")] = s
        for en_name in sorted(need):
            if vals[en_name] in cases:
                r.ok(f, "case:" + en_name, "handled", b.term["line"], nontrivial=False)
            else:
                r.bad(f, "case:" + en_name, "disposal method %s has no case in switch(method)" % en_name, b.term["line"])

        def frees_ptr(e):
            return e["k"] == "call" and e.get("callee") == "free" and e["args"] and is_var(e["args"][0]["tree"], ptr)

        def zeroes_ptr(e):
            return e["k"] == "call" and e.get("callee") == "memset" and len(e["args"]) >= 2 and is_var(e["args"][0]["tree"], ptr) and e["args"][1].get("const") == 0
        rets = [(rb, ri) for rb, ri, re in f.returns()]
        ends = rets or [(f.blocks[f.exit], 0)]

        def all_paths_pass(start, pred):
            # every path from `start` to the function exit passes an event satisfying pred
            st, seen = [start], set()
            while st:
                x = st.pop()
                if x in seen:
                    continue
                seen.add(x)
                blk = f.blocks[x]
                if any(pred(e) for e in blk.ev):
                    continue
                if x == f.exit or any(e["k"] == "return" for e in blk.ev):
                    return False
                st.extend(blk.succs())
            return True

        def some_path_hits(start, pred):
            for x in f.reachable_from([start]):
                if any(pred(e) for e in f.blocks[x].ev):
                    return True
            return False
        v = vals["ASFM_FREE_EVERYTHING"]
        if v in cases:
            if all_paths_pass(cases[v], frees_ptr):
                r.ok(f, "FREE_EVERYTHING:free", "the structure is freed on every path of this case", f.blocks[cases[v]].ev[0].get("line") if f.blocks[cases[v]].ev else None)
            else:
                r.bad(f, "FREE_EVERYTHING:free", "a path through case ASFM_FREE_EVERYTHING does not free the structure pointer: ASN_STRUCT_FREE leaks it", b.term["line"])
        v = vals["ASFM_FREE_UNDERLYING_AND_RESET"]
        if v in cases:
            if all_paths_pass(cases[v], zeroes_ptr):
                r.ok(f, "RESET:memset", "the structure is zeroed on every path of this case", b.term["line"])
            else:
                r.bad(f, "RESET:memset", "a path through case ASFM_FREE_UNDERLYING_AND_RESET does not zero the structure: ASN_STRUCT_RESET leaves dangling members", b.term["line"])
            if some_path_hits(cases[v], frees_ptr) and not _falls_into(f, cases[v], cases.get(vals["ASFM_FREE_EVERYTHING"])):
                r.bad(f, "RESET:no-free", "case ASFM_FREE_UNDERLYING_AND_RESET frees the structure itself", b.term["line"])
        v = vals["ASFM_FREE_UNDERLYING"]
        if v in cases:
            if some_path_hits(cases[v], frees_ptr):
                r.bad(f, "UNDERLYING:no-free", "case ASFM_FREE_UNDERLYING frees the structure itself (it is embedded in its parent)", b.term["line"])
            else:
                r.ok(f, "UNDERLYING:no-free", "the (embedded) structure itself is not freed", b.term["line"])
        # NULL tolerance: no dereference of the structure pointer reachable when it is NULL
        bad = None
        pv = ["var", ptr, "param", ""]
        for db, di, de in f.events():
            if de["k"] in ("deref", "subscript") and de.get("base_id") == ptr and de.get("deref"):
                p = guards.null_reachable(f, pv, db)
                if p is not None:
                    bad = (de, p)
                    break
        # pointers derived from ptr (st = ptr) are covered when the first use is after the guard; keep to direct uses
        if bad:
            r.bad(f, "NULL-structure", "`%s` dereferences the structure pointer on a path where it is NULL" % bad[0].get("lhs"), bad[0].get("line"),
                  witness={"path": guards.path_lines(f, bad[1])})
        else:
            r.ok(f, "NULL-structure", "no direct dereference of the structure pointer is reachable when it is NULL", f.line)
    # ctx->ptr parking: per op table
    for tname, init in sorted(prog.op_tables.items()):
        parks = []
        for slot in common.DECODER_SLOTS:
            v = init.get(slot)
            if not (isinstance(v, str) and v.startswith("fn:")):
                continue
            df = prog.func(v[3:])
            if df is None:
                continue
            for b, i, e in df.events():
                if e["k"] == "assign" and e.get("field") == "ptr" and "asn_struct_ctx" in e.get("pointee", "") and e.get("op") == "=" \
                        and const_of(e["rhs"]["tree"]) != 0:
                    parks.append((df, e, "assigns ctx->ptr"))
                elif e["k"] == "call":
                    for a in e.get("args", []):
                        t = strip_casts(a.get("tree"))
                        if isinstance(t, list) and t and t[0] == "un" and t[1] == "&" and isinstance(strip_casts(t[2]), list) \
                                and strip_casts(t[2])[0] == "member" and strip_casts(t[2])[2] == "ptr" and "asn_struct_ctx" in str(strip_casts(t[2])[4]):
                            parks.append((df, e, "passes &ctx->ptr to %s" % (e.get("callee") or e.get("indirect"))))
        if not parks:
            continue
        fv = init.get("free_struct")
        ff = prog.func(fv[3:]) if isinstance(fv, str) and fv.startswith("fn:") else None
        if ff is None:
            continue
        # does the free function release something derived from ctx->ptr ?
        derived = set()
        for b, i, e in ff.events():
            tree = (e.get("rhs") or e.get("init") or {}).get("tree") if e["k"] in ("assign", "decl") else None
            if tree is not None and any(n[0] == "member" and n[2] == "ptr" and "asn_struct_ctx" in str(n[4]) for n in walk(tree)):
                derived.add(e.get("id") or e.get("base_id"))
        rel = False
        for b, i, e in ff.calls():
            idx = 0 if e.get("callee") == "free" else (1 if e.get("slot") == "free_struct" else None)
            if idx is None or idx >= len(e["args"]):
                continue
            t = e["args"][idx]["tree"]
            if any(n[0] == "member" and n[2] == "ptr" and "asn_struct_ctx" in str(n[4]) for n in walk(t)) or \
                    (is_var(t) and strip_casts(t)[1] in derived):
                rel = True
        key = "ctx->ptr:%s" % tname
        df, e, how = parks[0]
        if rel:
            r.ok(ff, key, "%s %s; %s releases ctx->ptr" % (df.name, how, ff.name), ff.line)
        else:
            r.bad(ff, key, "%s %s (an allocation parked in the decoder context across calls) but %s never releases ctx->ptr: "
                  "freeing a half-decoded structure leaks it" % (df.name, how, ff.name), ff.line)
    return r


def _falls_into(f, a, b):
    return b is not None and b in f.reachable_from([a])


# ------------------------------------------------------------------------------------------ R14.4
def r14_4(prog, tab):
    from .c15 import must_pass
    r = Rule("R14.4", "CHOICE decoders record the selected alternative before the member decoder can fail, or on every exit "
                      "after it, so that CHOICE_free finds a half-built member", floor=4)
    setters = set(tab["presence_setters"])
    init = prog.op_tables.get("asn_OP_CHOICE")
    if not init:
        raise AnalysisBroken("asn_OP_CHOICE not found")
    for slot in common.DECODER_SLOTS:
        v = init.get(slot)
        if not (isinstance(v, str) and v.startswith("fn:")):
            continue
        f = prog.require(v[3:])
        dom = f.dominators()
        sets = [(b, i, e) for b, i, e in f.calls() if e.get("callee") in setters]
        if not sets:
            r.bad(f, "no-setter", "CHOICE decoder never records the selected alternative", f.line)
            continue
        for b, i, e in f.calls():
            is_member_decode = (e.get("slot") == slot and "asn_TYPE_operation" in e.get("slot_struct", "")) or \
                e.get("callee") in tab["open_type_getters"]
            if not is_member_decode:
                continue
            key = e.get("callee") or "->" + e["slot"]
            before = any((sb.id == b.id and si < i) or (sb.id != b.id and sb.id in dom.get(b.id, ())) for sb, si, se in sets)
            if before:
                r.ok(f, key, "presence index set on every path before the member decoder runs", e["line"])
                continue
            ok = True
            for rb, ri, re in f.returns():
                if rb.id in f.reachable_from([b.id]):
                    def is_set(x):
                        return x["k"] == "call" and x.get("callee") in setters
                    # from just after the decode call
                    start_ok = any(is_set(x) for x in b.ev[i + 1:])
                    if not start_ok:
                        for s in b.succs():
                            if not must_pass(f, s, rb.id, ri, is_set):
                                ok = False
                    if not ok:
                        break
            if ok:
                r.ok(f, key, "presence index set on every path from the member decoder to a return", e["line"])
            else:
                r.bad(f, key, "a return is reachable after the member decoder ran without the presence index having been set: "
                              "a failed or starved member is invisible to CHOICE_free (leak) or to the resumed decode", e["line"])
    return r


# ------------------------------------------------------------------------------------------ R14.6
def r14_6(prog, tab, summ=None):
    """A pointer kept in persistent storage (reached through a pointer: ctx->ptr, st->buf, *sptr, list->array[i]) that
    is freed must not survive the function: on every path from the free to a return the same lvalue is assigned
    (NULL or a new block), or the object holding it is itself freed or zeroed."""
    from .c15 import must_pass
    r = Rule("R14.6", "a freed pointer that lives in persistent storage is overwritten (or its holder released/zeroed) before the function returns", floor=30)
    summ = summ or ownership.Summaries(prog, tab)
    exc = {(x["rule"], x["function"], x["key"]): x["reason"] for x in tab.get("exceptions", [])}
    for f in sorted(prog.funcs.values(), key=lambda f: f.key):
        if common.is_random_fill(prog, f):
            continue
        for b, i, e in f.calls():
            rel = summ.releases(e)
            for ai in rel:
                if ai >= len(e["args"]):
                    continue
                t = strip_casts(e["args"][ai]["tree"])
                via = None
                if is_var(t) and t[2] == "local":
                    # a local that is nothing but a copy of a persistent lvalue (`preamble = ctx->ptr`): freeing it frees that
                    srcs = set()
                    for b2, i2, d in f.events():
                        tr = None
                        if d["k"] == "decl" and d.get("id") == t[1] and "init" in d:
                            tr = d["init"]["tree"]
                        elif d["k"] == "assign" and d.get("base_id") == t[1] and d.get("lhs") == d.get("base") and not d.get("deref") and d.get("op") == "=" and "rhs" in d:
                            tr = d["rhs"]["tree"]
                        if tr is not None:
                            srcs.add(tree_text(strip_casts(tr)))
                            src_tree = strip_casts(tr)
                    if len(srcs) == 1 and isinstance(src_tree, list) and src_tree[0] == "member" and src_tree[3]:
                        # `b = st->buf; st->buf = p; free(b)`: the holder was already given a new value after the copy
                        ltxt = tree_text(src_tree)
                        reassigned = False
                        for b2, i2, d in f.events():
                            if d["k"] in ("decl", "assign") and (d.get("id") == t[1] or d.get("base_id") == t[1]):
                                if b2.id == b.id and i2 < i:
                                    reassigned = any(y["k"] == "assign" and y.get("op") == "=" and y.get("lhs_tree") is not None
                                                     and tree_text(strip_casts(y["lhs_tree"])) == ltxt for y in b.ev[i2 + 1:i])
                                elif b2.id != b.id:
                                    reassigned = must_pass(f, b2.id, b.id, i, lambda y: y["k"] == "assign" and y.get("op") == "=" and y.get("lhs_tree") is not None
                                                           and tree_text(strip_casts(y["lhs_tree"])) == ltxt and not (y is d))
                        if reassigned:
                            continue
                        via = t[1].split("@")[0]
                        t = src_tree
                    else:
                        # the other direction: the local was stored into a persistent lvalue (`*sptr = st`) and nothing
                        # on the way from that store to the free gave the lvalue another value: freeing the local frees it
                        for sb, si, d in f.events():
                            if d["k"] != "assign" or d.get("op") != "=" or "rhs" not in d or d.get("lhs_tree") is None:
                                continue
                            rt = strip_casts(d["rhs"]["tree"])
                            if not (is_var(rt) and rt[1] == t[1]):
                                continue
                            lt = strip_casts(d["lhs_tree"])
                            if not isinstance(lt, list) or lt[0] not in ("member", "un") or (lt[0] == "un" and lt[1] != "*"):
                                continue
                            if lt[0] == "member" and not any(n[0] == "member" and n[3] for n in walk(lt)) and not any(n[0] == "un" and n[1] == "*" for n in walk(lt)):
                                continue
                            ltxt = tree_text(lt)
                            again = lambda y, d=d, ltxt=ltxt: (y["k"] == "assign" and y.get("op") == "=" and y.get("lhs_tree") is not None
                                                               and tree_text(strip_casts(y["lhs_tree"])) == ltxt and y is not d)
                            if sb.id == b.id and si < i:
                                reaches_free = True
                                rewritten = any(again(y) for y in b.ev[si + 1:i])
                            else:
                                reaches_free = b.id in f.reachable_from(sb.succs())
                                rewritten = any(again(y) for y in sb.ev[si + 1:]) or all(must_pass(f, s_, b.id, i, again) for s_ in sb.succs())
                            if reaches_free and not rewritten:
                                via = t[1].split("@")[0]
                                t = lt
                                break
                # persistent lvalue: member through a pointer, or *ptr, or array element through pointer
                if not isinstance(t, list) or t[0] not in ("member", "un", "sub"):
                    continue
                if t[0] == "un" and t[1] != "*":
                    continue
                if t[0] == "member" and not any(n[0] == "member" and n[3] for n in walk(t)) and not any(n[0] == "un" and n[1] == "*" for n in walk(t)):
                    continue     # field of a local object
                key_text = tree_text(t)
                base_vars = [n for n in walk(t) if n[0] == "var"]
                if not base_vars:
                    continue
                holder_id = base_vars[0][1]
                holder_text = tree_text(t[1]) if t[0] in ("member", "sub") else tree_text(t[2])

                def settles(x, key_text=key_text, holder_id=holder_id, t=t):
                    if x["k"] == "assign" and x.get("lhs_tree") is not None and tree_text(strip_casts(x["lhs_tree"])) == key_text and x.get("op") == "=":
                        return True
                    if x["k"] == "call":
                        cal = x.get("callee")
                        # the holder object is freed or zeroed, or the same pointer is given to a routine that resets it
                        for aj in summ.releases(x):
                            if aj < len(x["args"]):
                                at = strip_casts(x["args"][aj]["tree"])
                                if is_var(at) and at[1] == holder_id:
                                    return True
                                if tree_text(at) == tree_text(strip_casts(t[1] if t[0] in ("member", "sub") else t[2])):
                                    return True
                        if cal == "memset" and x["args"]:
                            at = strip_casts(x["args"][0]["tree"])
                            if any(n[0] == "var" and n[1] == holder_id for n in walk(at)):
                                return True
                    return False
                key = "free(%s)" % key_text if via is None else "free(%s = %s)" % (via, key_text)
                bad = None
                # index-stepping loops (free(arr[i]) for each i) reuse the lvalue text with a new index: the variable index
                # changes, so only consider lvalues without a subscript by a variable that is modified
                if t[0] == "sub" or any(n[0] == "sub" for n in walk(t)):
                    r.ok(f, key, "array element freed in an element loop (the array itself is released or reset by the caller)", e["line"], nontrivial=False)
                    continue
                for rb, ri, re in f.returns():
                    if rb.id not in f.reachable_from([b.id]):
                        continue
                    # from just after the free
                    if any(settles(x) for x in b.ev[i + 1:]):
                        continue
                    okp = True
                    for s_ in b.succs():
                        if not must_pass(f, s_, rb.id, ri, settles):
                            okp = False
                    if b.id == rb.id:
                        okp = any(settles(x) for x in b.ev[i + 1:ri])
                    if not okp:
                        bad = re
                        break
                if f.ret_type == "void" and not list(f.returns()):
                    # falls off the end
                    if not any(settles(x) for x in b.ev[i + 1:]) and not all(must_pass(f, s_, f.exit, 0, settles) for s_ in b.succs()):
                        bad = {"line": None}
                ek = ("R14.6", f.name, key)
                if bad is None:
                    r.ok(f, key, "the freed pointer is overwritten, or its holder released/zeroed, on every path to a return", e["line"])
                elif ek in exc:
                    r.exc(f, key, exc[ek], e["line"])
                else:
                    r.bad(f, key, "`%s` is freed here and still holds the stale address when the function returns at line %s: the next free or use "
                                  "of the holder (e.g. the type's free function) hits freed memory" % (key_text, bad.get("line")), e["line"])
    return r


# ------------------------------------------------------------------------------------------ R14.7
def r14_7(prog, tab):
    """Where a disposal method is chosen from whether a structure pointer is NULL (caller-provided storage is reset,
    storage allocated by the decoder is freed), the choice must be made before any call that can allocate into that
    pointer: evaluated afterwards it always sees a non-NULL pointer and never frees what the decoder allocated."""
    r = Rule("R14.7", "the caller-owned-or-allocated snapshot that selects a disposal method is taken before the decoder can allocate", floor=1)
    for f in sorted(prog.funcs.values(), key=lambda f: f.key):
        for b, i, e in f.events():
            trees = []
            if e["k"] == "call":
                trees = [a.get("tree") for a in e.get("args", [])]
            elif e["k"] in ("assign", "decl"):
                trees = [(e.get("rhs") or e.get("init") or {}).get("tree")]
            for t in trees:
                for n in walk(t):
                    if n[0] != "cond":
                        continue
                    arms = [strip_casts(n[2]), strip_casts(n[3])]
                    if not all(isinstance(a, list) and a and a[0] == "enum" and a[1].startswith("ASFM_") for a in arms):
                        continue
                    cvars = {x[1] for x in walk(n[1]) if x[0] == "var"}
                    key = "method-by:%s" % tree_text(n[1])
                    # a call that receives one of those variables (a pointer to the pointer) and can reach this evaluation
                    bad = None
                    for cb, ci, ce in f.calls():
                        if (cb.id, ci) == (b.id, i):
                            continue
                        passes = any(is_var(a.get("tree")) and strip_casts(a["tree"])[1] in cvars for a in ce.get("args", []))
                        if not passes:
                            continue
                        if ce.get("callee") in ("free", "memset") or (ce.get("slot") == "free_struct"):
                            continue
                        reach = (cb.id == b.id and ci < i) or (cb.id != b.id and b.id in f.reachable_from(cb.succs()))
                        if reach:
                            bad = ce
                            break
                    if bad is None:
                        r.ok(f, key, "the method is selected before any call that could allocate into the tested pointer", e.get("line"))
                    else:
                        r.bad(f, key, "the disposal method is selected by `%s` after the call at line %s received that pointer and may have allocated "
                                      "into it: the test then always sees non-NULL, the freshly allocated structure is only reset, and the pointer to it is dropped" % (
                                          tree_text(n[1]), bad.get("line")), e.get("line"))
    return r
