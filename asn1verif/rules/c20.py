"""C20 unber is safe on arbitrary input — R20.1 unber's recursion is bounded, R20.2 fetch results are discriminated and
allocations follow the length bound."""
from ..engine import Rule, load_tables
from ..extract import AnalysisBroken
from ..model import walk, strip_casts, is_var, const_of, tree_text
from .. import guards, assume

EXPLANATION = (
    "R20.1: call-graph cycles of asn1-tools/unber: a recursive call that passes `depth + 1` for an integer parameter "
    "must be dominated by a comparison of that parameter with a constant whose exceeding edge cannot reach the call; "
    "the nesting depth of BER input is chosen by the input. R20.2: every use of a ber_fetch_tag/ber_fetch_length "
    "result in the tool is on edges that exclude both sentinels (0 = need more, -1 = error): assuming the fetch "
    "returned 0 or -1, no pointer arithmetic, subtraction or allocation using the result is reachable.")
NOT_DECIDED = "that enber inverts unber and that printed offsets are right (behavioural)"
ASSUMPTIONS = []


def depth_guard(f, site_block, site_idx, e):
    params = {p["id"] for p in f.params if p["type"].strip() in ("int", "unsigned int", "unsigned", "size_t", "long")}
    deep = set()
    for a in e.get("args", []):
        t = strip_casts(a.get("tree"))
        if isinstance(t, list) and t and t[0] == "bin" and t[1] == "+" and is_var(t[2]) and strip_casts(t[2])[1] in params and (const_of(t[3]) or 0) > 0:
            deep.add(strip_casts(t[2])[1])
    if not deep:
        return None
    dom = f.dominators()
    for d in dom.get(site_block.id, ()):
        tb = f.blocks[d]
        if not tb.term or "cond" not in tb.term or len(tb.succ) < 2:
            continue
        c = strip_casts(tb.term["cond"]["tree"])
        if not (isinstance(c, list) and c[0] == "bin" and c[1] in (">", ">=", "<", "<=")):
            continue
        l, r = strip_casts(c[2]), strip_casts(c[3])
        op = c[1]
        if is_var(r) and r[1] in deep and const_of(l) is not None:
            l, r = r, l
            op = {">": "<", ">=": "<=", "<": ">", "<=": ">="}[op]
        if not (is_var(l) and l[1] in deep and const_of(r) is not None):
            continue
        exceed_idx = 0 if op in (">", ">=") else 1
        s = tb.succ[exceed_idx]
        if s is not None and site_block.id not in f.reachable_from([s], stop=lambda x: x == tb.id):
            return "depth limit on %s" % l[1].split("@")[0]
    return None


def run(ctx):
    from .c15 import recursion_rule
    prog = ctx.prog("T")
    tab = load_tables("c20")
    r1 = Rule("R20.1", "every recursion of unber that descends with depth + 1 tests the depth against a constant limit first", floor=1)
    exc = {(x["rule"], x["function"], x["key"]): x["reason"] for x in tab.get("exceptions", [])}
    tool_keys = {k for k, f in prog.funcs.items() if "asn1-tools/" in f.relfile}
    comps, cyc = recursion_rule(prog, "unber", tool_keys, r1, exc, None, guard_fn=depth_guard, what="depth limit")
    r2 = Rule("R20.2", "results of the BER fetch routines are used only where both sentinels (0, -1) are excluded", floor=2)
    from .sentinels import sentinel_rule
    sentinel_rule(prog, r2, [f for f in prog.funcs.values() if "asn1-tools/" in f.relfile],
                  {"ber_fetch_tag": (0, -1), "ber_fetch_length": (0, -1)})
    # R20.5: unber and enber terminate on arbitrary input: exact rule over every loop of the tools and of the BER
    # routines they link
    from . import termination
    r5 = termination.rule_for(prog, "R20.5", "unber, enber and the BER routines they use", set(prog.funcs.keys()), 30)
    # R20.6: the tools' own printf-like calls (osprintf, osprintfError, fprintf, ...) get the arguments their formats consume
    from . import c10
    r6 = c10.r10_14(prog, rid="R20.6", floor=60, what="unber and enber")
    return [r1, r2, r20_3(prog), r20_4(prog), r5, r6]


def r20_4(prog):
    """Fixed-size global tables of the tools (and of the parser headers they include) are subscripted by a value taken from
    the input only on the bounded edge of an upper-bound comparison of that value: the tag number of a TLV is chosen by the
    input (`[UNIVERSAL 31+]` is legal BER), the universal-tag name table has 32 entries."""
    import re as _re
    r = Rule("R20.4", "global fixed-size tables in the tools are indexed only behind an upper-bound test of the index", floor=3)
    for f in sorted(prog.funcs.values(), key=lambda f: f.key):
        if "asn1-tools/" not in f.relfile and "libasn1parser/asn1p_expr" not in f.relfile:
            continue
        n = 0
        for b, i, e in sorted(f.events("subscript"), key=lambda z: (z[2].get("line") or 0, z[0].id, z[1])):
            bt = strip_casts(e["basex"]["tree"])
            if not (is_var(bt) and bt[2] not in ("local", "param") and _re.search(r"\[\d+\]$", bt[3] or "")):
                continue
            if "const" in e["index"]:
                continue
            n += 1
            ivars = {x[1] for x in walk(e["index"]["tree"]) if x[0] == "var"}
            key = "%s[%s]#%d" % (bt[1], e["index"].get("text", "?")[:20], n)
            ok = None
            slack = None
            for d in f.dominators().get(b.id, ()):
                tb = f.blocks[d]
                if not tb.term or "cond" not in tb.term or len(tb.succ) < 2:
                    continue
                c = strip_casts(tb.term["cond"]["tree"])
                if not (isinstance(c, list) and c and c[0] == "bin" and c[1] in ("<", "<=", ">", ">=")):
                    continue
                lv = {x[1] for x in walk(c[2]) if x[0] == "var"}
                rv = {x[1] for x in walk(c[3]) if x[0] == "var"}
                op = c[1]
                if rv & ivars and not (lv & ivars):
                    op = {"<": ">", "<=": ">=", ">": "<", ">=": "<="}[op]
                elif not (lv & ivars):
                    continue
                bounded_idx = 0 if op in ("<", "<=") else 1
                # the bound, if it can be evaluated (a constant, or sizeof(table)/sizeof(table[0]) = the dimension), must
                # keep the index at most dimension - 1
                other = c[3] if (lv & ivars) else c[2]
                dim = int(_re.search(r"\[(\d+)\]$", bt[3]).group(1))
                cval = const_of(other)
                ot = strip_casts(other)
                if cval is None and isinstance(ot, list) and ot and ot[0] == "bin" and ot[1] == "/" and all(
                        isinstance(strip_casts(x), list) and strip_casts(x)[0] == "sizeof" for x in (ot[2], ot[3])) and bt[1] in str(strip_casts(ot[2])[1]):
                    cval = dim
                if cval is not None:
                    limit = cval - 1 if op in ("<", ">=") else cval          # largest index the bounded edge lets through
                    if limit > dim - 1:
                        slack = (tb.term.get("line"), limit, dim)
                        continue
                if f.edge_dominates(d, bounded_idx, b.id):
                    ok = tb.term.get("line")
            if ok is not None:
                r.ok(f, key, "reached only through the bounded edge of the comparison at line %s" % ok, e["line"])
            elif slack is not None:
                r.bad(f, key, "`%s` (%s) is indexed with `%s`; the comparison at line %s lets the index reach %d, the table ends at %d" % (
                    bt[1], bt[3], e["index"].get("text"), slack[0], slack[1], slack[2] - 1), e["line"])
            else:
                r.bad(f, key, "`%s` (%s) is indexed with `%s` and no upper-bound comparison of the index guards the access: a tag number or "
                              "similar value from the input reads past the table" % (bt[1], bt[3], e["index"].get("text")), e["line"])
    return r


def r20_3(prog):
    """No block allocated inside a tool function is released twice.  The ownership walk of C14 (alias groups of the
    local holders of an allocation, releases through free()/FREEMEM and the releasing helpers, holders reset by
    assignment) is run for every allocation site in asn1-tools/; only its double-free verdict is used here: leaks at
    process exit and unchecked allocations are not memory errors in the sense of this property."""
    from .. import ownership
    r = Rule("R20.3", "no heap block allocated in a tool function is freed twice on any path", floor=4)
    tab14 = load_tables("c14")
    summ = ownership.Summaries(prog, tab14)
    for f in sorted(prog.funcs.values(), key=lambda f: f.key):
        if "asn1-tools/" not in f.relfile:
            continue
        for b, i, e in f.calls():
            if not summ.is_alloc_call(e):
                continue
            group, esc = ownership.holders_of_site(f, b, i, e)
            key = "%s->%s" % (e.get("callee"), ",".join(sorted(v.split("@")[0] for v in group)) or ("<nonlocal>" if esc else e.get("use")))
            if not group:
                r.ok(f, key, "result stored directly into non-local storage (not tracked)", e["line"], nontrivial=False)
                continue
            finds, _, _ = ownership.walk_site(f, b, i, e, summ, "owned")
            df = [x for x in finds if x["kind"] == "double-free"]
            if df:
                fd = df[0]
                r.bad(f, key, "the block allocated here is freed a second time at line %s" % fd.get("line"), e["line"],
                      witness={"at_line": fd.get("line"), "path": guards.path_lines(f, list(fd["path"]))})
            elif any(x["kind"] == "state-limit" for x in finds):
                r.bad(f, key, "path exploration limit reached (not decided)", e["line"])
            else:
                r.ok(f, key, "released at most once on every path", e["line"])
    return r


def thorough(ctx):
    from .. import selftest
    import sys
    return selftest.run_mutants("C20", sys.modules[__name__])
