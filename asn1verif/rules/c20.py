"""C20 unber is safe on arbitrary input — R20.1 unber's recursion is bounded, R20.2 fetch results are discriminated and
allocations follow the length bound."""
from ..engine import Rule, load_tables
from ..extract import AnalysisBroken
from ..model import walk, strip_casts, is_var, const_of, tree_text
from .. import guards, assume

EXPLANATION = (
    "R20.1: call-graph cycles of asn1-tools/unber: a recursive call that passes `depth + 1` for an integer parameter "
    "must be dominated by a comparison of that parameter with a constant whose exceeding edge cannot reach the call; "
    "the nesting depth of BER input is chosen by the input. R20.2: every use of a ber_fetch_tag/ber_fetch_length "
    "result in the tool is on edges that exclude both sentinels (0 = need more, -1 = error): assuming the fetch "
    "returned 0 or -1, no pointer arithmetic, subtraction or allocation using the result is reachable.")
NOT_DECIDED = "that enber inverts unber and that printed offsets are right (behavioural)"
ASSUMPTIONS = []


def depth_guard(f, site_block, site_idx, e):
    params = {p["id"] for p in f.params if p["type"].strip() in ("int", "unsigned int", "unsigned", "size_t", "long")}
    deep = set()
    for a in e.get("args", []):
        t = strip_casts(a.get("tree"))
        if isinstance(t, list) and t and t[0] == "bin" and t[1] == "+" and is_var(t[2]) and strip_casts(t[2])[1] in params and (const_of(t[3]) or 0) > 0:
            deep.add(strip_casts(t[2])[1])
    if not deep:
        return None
    dom = f.dominators()
    for d in dom.get(site_block.id, ()):
        tb = f.blocks[d]
        if not tb.term or "cond" not in tb.term or len(tb.succ) < 2:
            continue
        c = strip_casts(tb.term["cond"]["tree"])
        if not (isinstance(c, list) and c[0] == "bin" and c[1] in (">", ">=", "<", "<=")):
            continue
        l, r = strip_casts(c[2]), strip_casts(c[3])
        op = c[1]
        if is_var(r) and r[1] in deep and const_of(l) is not None:
            l, r = r, l
            op = {">": "<", ">=": "<=", "<": ">", "<=": ">="}[op]
        if not (is_var(l) and l[1] in deep and const_of(r) is not None):
            continue
        exceed_idx = 0 if op in (">", ">=") else 1
        s = tb.succ[exceed_idx]
        if s is not None and site_block.id not in f.reachable_from([s], stop=lambda x: x == tb.id):
            return "depth limit on %s" % l[1].split("@")[0]
    return None


def run(ctx):
    from .c15 import recursion_rule
    prog = ctx.prog("T")
    tab = load_tables("c20")
    r1 = Rule("R20.1", "every recursion of unber that descends with depth + 1 tests the depth against a constant limit first", floor=1)
    exc = {(x["rule"], x["function"], x["key"]): x["reason"] for x in tab.get("exceptions", [])}
    tool_keys = {k for k, f in prog.funcs.items() if "asn1-tools/" in f.relfile}
    comps, cyc = recursion_rule(prog, "unber", tool_keys, r1, exc, None, guard_fn=depth_guard, what="depth limit")
    r2 = Rule("R20.2", "results of the BER fetch routines are used only where both sentinels (0, -1) are excluded", floor=2)
    for f in sorted(prog.funcs.values(), key=lambda f: f.key):
        if "asn1-tools/" not in f.relfile:
            continue
        for b, i, e in f.calls():
            cal = e.get("callee")
            if cal not in ("ber_fetch_tag", "ber_fetch_length"):
                continue
            subj = assume.subject_of_call(e, None)
            key = cal
            if subj is None or subj.var is None:
                r2.bad(f, key, "result of %s is not held in a variable (%s)" % (cal, e.get("use")), e["line"])
                continue
            vid = subj.var
            bad = None
            for v in (0, -1):
                # walk under the assumption; any arithmetic use of the variable reachable is a misuse
                pred = subj.pred()
                seen, st = set(), [(b.id, i + 1)]
                while st and bad is None:
                    bid, pos = st.pop()
                    if (bid, pos) in seen:
                        continue
                    seen.add((bid, pos))
                    blk = f.blocks[bid]
                    stop = False
                    for j in range(pos, len(blk.ev)):
                        x = blk.ev[j]
                        if x["k"] == "assign" and x.get("base_id") == vid and not x.get("deref") and x.get("op") == "=" and not (bid == b.id and j == i + 1):
                            stop = True
                            break
                        trees = []
                        if x["k"] == "assign" and not (bid == b.id and j == i + 1):
                            trees = [x.get("rhs", {}).get("tree")]
                        elif x["k"] == "call" and x.get("callee") not in ("fprintf", "osprintfError", "osprintf", "__assert_fail"):
                            trees = [a.get("tree") for a in x.get("args", [])]
                        elif x["k"] == "subscript":
                            trees = [x.get("index", {}).get("tree")]
                        for t in trees:
                            for n in walk(t):
                                if n[0] == "bin" and n[1] in ("+", "-", "*") and (is_var(n[2], vid) or is_var(n[3], vid)):
                                    bad = (v, x)
                        if x["k"] == "return":
                            stop = True
                            break
                    if stop or bad:
                        continue
                    alive = list(range(len(blk.succ)))
                    if blk.term and "cond" in blk.term:
                        if blk.term["kind"] == "SwitchStmt":
                            val = assume.eval_under(blk.term["cond"]["tree"], pred, v)
                            if val is not None:
                                hit = dflt = None
                                for idx, s_ in enumerate(blk.succ):
                                    if s_ is None:
                                        continue
                                    lab = f.blocks[s_].label or {}
                                    if lab.get("kind") == "case" and lab.get("value") == val:
                                        hit = idx
                                    elif lab.get("kind") != "case":
                                        dflt = idx
                                alive = [hit if hit is not None else dflt]
                        elif len(blk.succ) >= 2:
                            val = assume.eval_under(blk.term["cond"]["tree"], pred, v)
                            if val is not None:
                                alive = [0] if val else [1]
                    for idx in alive:
                        if idx is not None and idx < len(blk.succ) and blk.succ[idx] is not None:
                            st.append((blk.succ[idx], 0))
            if bad is None:
                r2.ok(f, key, "assuming the fetch answered 0 or -1, no arithmetic on its result is reachable", e["line"])
            else:
                v, x = bad
                r2.bad(f, key, "assuming %s returned %d, its result is still used in arithmetic at line %s (`%s`): a sentinel is treated as a length" % (
                    cal, v, x.get("line"), (x.get("lhs") or x.get("text") or "")[:60]), e["line"])
    return [r1, r2]


def thorough(ctx):
    from .. import selftest
    import sys
    return selftest.run_mutants("C20", sys.modules[__name__])
