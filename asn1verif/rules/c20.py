"""C20 unber is safe on arbitrary input — R20.1 unber's recursion is bounded, R20.2 fetch results are discriminated and
allocations follow the length bound."""
from ..engine import Rule, load_tables
from ..extract import AnalysisBroken
from ..model import walk, strip_casts, is_var, const_of, tree_text
from .. import guards, assume

EXPLANATION = (
    "R20.1: call-graph cycles of asn1-tools/unber: a recursive call that passes `depth + 1` for an integer parameter "
    "must be dominated by a comparison of that parameter with a constant whose exceeding edge cannot reach the call; "
    "the nesting depth of BER input is chosen by the input. R20.2: every use of a ber_fetch_tag/ber_fetch_length "
    "result in the tool is on edges that exclude both sentinels (0 = need more, -1 = error): assuming the fetch "
    "returned 0 or -1, no pointer arithmetic, subtraction or allocation using the result is reachable.")
NOT_DECIDED = "that enber inverts unber and that printed offsets are right (behavioural)"
ASSUMPTIONS = []


def depth_guard(f, site_block, site_idx, e):
    params = {p["id"] for p in f.params if p["type"].strip() in ("int", "unsigned int", "unsigned", "size_t", "long")}
    deep = set()
    for a in e.get("args", []):
        t = strip_casts(a.get("tree"))
        if isinstance(t, list) and t and t[0] == "bin" and t[1] == "+" and is_var(t[2]) and strip_casts(t[2])[1] in params and (const_of(t[3]) or 0) > 0:
            deep.add(strip_casts(t[2])[1])
    if not deep:
        return None
    dom = f.dominators()
    for d in dom.get(site_block.id, ()):
        tb = f.blocks[d]
        if not tb.term or "cond" not in tb.term or len(tb.succ) < 2:
            continue
        c = strip_casts(tb.term["cond"]["tree"])
        if not (isinstance(c, list) and c[0] == "bin" and c[1] in (">", ">=", "<", "<=")):
            continue
        l, r = strip_casts(c[2]), strip_casts(c[3])
        op = c[1]
        if is_var(r) and r[1] in deep and const_of(l) is not None:
            l, r = r, l
            op = {">": "<", ">=": "<=", "<": ">", "<=": ">="}[op]
        if not (is_var(l) and l[1] in deep and const_of(r) is not None):
            continue
        exceed_idx = 0 if op in (">", ">=") else 1
        s = tb.succ[exceed_idx]
        if s is not None and site_block.id not in f.reachable_from([s], stop=lambda x: x == tb.id):
            return "depth limit on %s" % l[1].split("@")[0]
    return None


def run(ctx):
    from .c15 import recursion_rule
    prog = ctx.prog("T")
    tab = load_tables("c20")
    r1 = Rule("R20.1", "every recursion of unber that descends with depth + 1 tests the depth against a constant limit first", floor=1)
    exc = {(x["rule"], x["function"], x["key"]): x["reason"] for x in tab.get("exceptions", [])}
    tool_keys = {k for k, f in prog.funcs.items() if "asn1-tools/" in f.relfile}
    comps, cyc = recursion_rule(prog, "unber", tool_keys, r1, exc, None, guard_fn=depth_guard, what="depth limit")
    r2 = Rule("R20.2", "results of the BER fetch routines are used only where both sentinels (0, -1) are excluded", floor=2)
    from .sentinels import sentinel_rule
    sentinel_rule(prog, r2, [f for f in prog.funcs.values() if "asn1-tools/" in f.relfile],
                  {"ber_fetch_tag": (0, -1), "ber_fetch_length": (0, -1)})
    return [r1, r2]


def thorough(ctx):
    from .. import selftest
    import sys
    return selftest.run_mutants("C20", sys.modules[__name__])
