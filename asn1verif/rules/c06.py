"""C06 canonical encodings depend only on the abstract value — R06.1 SET OF is sorted before it is emitted,
R06.2 DEFAULT elimination agrees across sibling encoders."""
from ..engine import Rule, load_tables
from ..extract import AnalysisBroken
from ..model import walk, strip_casts, is_var, const_of, tree_text
from .. import assume, guards
from . import common

EXPLANATION = (
    "R06.1: in the canonical SET OF encoders (DER, canonical UPER, CANONICAL-XER) every call that delivers element "
    "bytes to the output is dominated by a call that sorts the encoded elements (qsort, or a function every "
    "non-NULL-returning path of which passes qsort); the element comparators handed to qsort compare contents. "
    "R06.2: in SEQUENCE_encode_der/_uper/_oer and SET_encode_der every member encoder call (both passes, and every "
    "presence-bitmap computation) is unreachable under the assumption that the member's default_value_cmp answered "
    "0 (value equals its DEFAULT): the three codecs agree on dropping DEFAULT-valued members.")
NOT_DECIDED = "INTEGER minimal-octet stripping, unused-bit masking of BIT STRING, SET tag order (value-level)"
ASSUMPTIONS = ["default_value_cmp() == 0 means `equals the DEFAULT` (asn1c_C.c emit_default_value)"]


def sorters(prog):
    """functions every success (non-NULL / non-negative) return of which is preceded by qsort"""
    from .c15 import must_pass
    out = {"qsort"}
    for f in prog.funcs.values():
        qs = [(b, i, e) for b, i, e in f.calls() if e.get("callee") == "qsort"]
        if not qs:
            continue
        ok = True
        for rb, ri, re in f.returns():
            ex = re.get("expr")
            if ex is None or ex.get("const") == 0 or (ex.get("const") is not None and ex["const"] < 0):
                continue       # failure / NULL returns need no sort
            if not must_pass(f, f.entry, rb.id, ri, lambda x: x["k"] == "call" and x.get("callee") == "qsort"):
                ok = False
        if ok:
            out.add(f.name)
    return out


def r06_1(prog, tab):
    r = Rule("R06.1", "canonical SET OF encoders sort the encoded elements before any element byte reaches the output", floor=3)
    srt = sorters(prog)
    r.note("sorting functions: %s" % sorted(srt))
    for name in tab["canonical_setof_encoders"]:
        f = prog.func(name)
        if f is None:
            continue
        dom = f.dominators()
        sort_calls = [(b, i) for b, i, e in f.calls() if e.get("callee") in srt]
        # element-output calls: cb / bit writers whose data argument comes from an element buffer record
        outs = []
        for b, i, e in f.calls():
            is_out = ("callee" not in e and "asn_app_consume_bytes_f" in e.get("fp_type", "")) or e.get("callee") in ("asn_put_many_bits", "per_put_many_bits")
            if not is_out or not e["args"]:
                continue
            a0 = e["args"][1 if e.get("callee") else 0]["tree"] if (e.get("callee") and len(e["args"]) > 1) else e["args"][0]["tree"]
            if any(n[0] == "member" and n[2] in tab["element_buffer_fields"] for n in walk(a0)):
                outs.append((b, i, e))
        if not outs:
            raise AnalysisBroken("%s: no element output call found" % name)
        for b, i, e in outs:
            key = "emit:%s" % (e.get("callee") or "cb")
            ok = any((sb.id == b.id and si < i) or (sb.id != b.id and sb.id in dom.get(b.id, ())) for sb, si in sort_calls)
            if ok:
                r.ok(f, key, "element bytes are emitted only after the sort", e["line"])
            else:
                r.bad(f, key, "element bytes can reach the output on a path that never sorted the encoded elements: the encoding depends on "
                              "the order of the elements in memory", e["line"])
    return r


def r06_1b(prog, tab):
    """SET_OF_encode_xer with XER_F_CANONICAL: the per-element output inside the element loop goes to the collecting
    callback, never to the caller's callback.  The CFG is walked from the entry with the canonical flag variable (the
    local initialised from `flags & XER_F_CANONICAL`) assumed non-zero and the definition of the callback variable that
    is current on the path tracked; at every use of that variable inside a loop that calls the member xer_encoder the
    current definition must be a function (the collector), not the parameter's incoming value."""
    r = Rule("R06.1b", "with XER_F_CANONICAL every element byte produced inside the element loop goes to the collecting callback (to be sorted), on every path", floor=2)
    f = prog.func("SET_OF_encode_xer")
    if f is None:
        raise AnalysisBroken("SET_OF_encode_xer not found")
    flagvar = None
    for b, i, e in f.events("decl"):
        if "init" in e and "XER_F_CANONICAL" in e["init"].get("enums", []):
            flagvar = e["id"]
    cbvar = next((p_["id"] for p_ in f.params if "asn_app_consume_bytes_f" in p_["type"]), None)
    if flagvar is None or cbvar is None:
        raise AnalysisBroken("SET_OF_encode_xer: canonical flag variable or callback parameter not found")
    member_calls = [(b, i, e) for b, i, e in f.calls() if e.get("slot") == "xer_encoder"]
    loops = [(h, body) for h, body in f.loops() if any(b.id in body for b, i, e in member_calls)]
    if not loops:
        raise AnalysisBroken("SET_OF_encode_xer: element loop not found")
    inloop = set().union(*[body for h, body in loops])

    def isflag(t):
        return is_var(t, flagvar)
    seen = set()
    st = [(f.entry, "param")]
    uses = {}
    while st:
        bid, cur = st.pop()
        if (bid, cur) in seen:
            continue
        seen.add((bid, cur))
        blk = f.blocks[bid]
        stop = False
        for j, x in enumerate(blk.ev):
            if x["k"] == "call" and bid in inloop:
                used = x.get("fp_var") == cbvar or any(is_var(strip_casts(a.get("tree")), cbvar) for a in x.get("args", []))
                if used:
                    uses.setdefault((bid, j), (x, set()))[1].add(cur)
            if x["k"] == "assign" and x.get("base_id") == cbvar and x.get("lhs") == x.get("base") and not x.get("deref"):
                rt = strip_casts(x["rhs"]["tree"]) if "rhs" in x else None
                cur = "fn:" + rt[1] if isinstance(rt, list) and rt and rt[0] == "fn" else "other:" + x.get("rhs", {}).get("text", "?")
            if x["k"] == "return":
                stop = True
                break
        if stop:
            continue
        alive = [idx for idx, s_ in enumerate(blk.succ) if s_ is not None]
        if blk.term and "cond" in blk.term and len(blk.succ) >= 2 and blk.term["kind"] != "SwitchStmt":
            v = assume.eval_under(blk.term["cond"]["tree"], isflag, 1)
            if v is not None:
                alive = [0] if v else [1]
        for idx in alive:
            st.append((blk.succ[idx], cur))
    if not uses:
        raise AnalysisBroken("SET_OF_encode_xer: no use of the callback inside the element loop")
    n = 0
    for (bid, j), (x, defs) in sorted(uses.items()):
        n += 1
        key = "loop-output@%d" % n
        notfn = sorted(d for d in defs if not d.startswith("fn:"))
        if notfn:
            r.bad(f, key, "with the canonical flag set this use of `%s` inside the element loop can still see %s: element text goes "
                          "straight to the caller in memory order, unsorted" % (cbvar.split("@")[0], ", ".join(notfn)), x["line"])
        else:
            r.ok(f, key, "under the canonical flag the callback here is always %s" % ", ".join(sorted(defs)), x["line"])
    return r


def r06_1c(prog, tab):
    """In the DER, canonical UPER and (canonical) OER SET OF encoders no member encoder is handed the encoder's own output
    (its callback parameter, or its PER output object): an element written straight to the output leaves in memory
    order.  Member encoders may be called with a NULL callback (size pass) or with a collecting callback."""
    r = Rule("R06.1c", "canonical SET OF encoders never let a member encoder write straight to the caller's output", floor=2)
    for name in tab["setof_encoders_direct_output"]:
        f = prog.func(name)
        if f is None:
            continue
        outs = {p_["id"] for p_ in f.params if "asn_app_consume_bytes_f" in p_["type"] or "asn_per_outp" in p_["type"]}
        n = 0
        for b, i, e in f.calls():
            if not (e.get("slot") in common.ENCODER_SLOTS and "asn_TYPE_operation" in e.get("slot_struct", "")):
                continue
            n += 1
            key = "member->%s#%d" % (e["slot"], n)
            direct = [a for a in e.get("args", []) if is_var(strip_casts(a.get("tree"))) and strip_casts(a.get("tree"))[1] in outs]
            if direct:
                r.bad(f, key, "the member encoder is given `%s`, this encoder's own output: elements are written in the order they have in "
                              "memory, so two representations of the same set encode differently" % tree_text(direct[0]["tree"]), e["line"])
            else:
                r.ok(f, key, "member encoder called without the caller's output (size pass or collector)", e["line"])
        if n == 0:
            r.ok(f, "no-member-call", "no member encoder is called directly (elements are encoded by the sorting helper)", f.line)
    return r


def r06_2(prog, tab):
    r = Rule("R06.2", "a member whose value equals its DEFAULT is not encoded, in every pass of every canonical SEQUENCE/SET encoder", floor=5)
    for name in tab["default_eliminating_encoders"]:
        f = prog.func(name)
        if f is None:
            continue
        cmps = [(b, i, e) for b, i, e in f.calls() if e.get("slot") == "default_value_cmp"]
        for b, i, e in f.calls():
            if not (e.get("slot") in common.ENCODER_SLOTS and "asn_TYPE_operation" in e.get("slot_struct", "")):
                continue
            # member encoder call: through elm->type->op
            if not any(n[0] == "member" and n[2] == "type" for n in walk(e["callee_tree"])):
                continue
            key = "member->%s@%d" % (e["slot"], sum(1 for bb, ii, ee in f.calls() if ee.get("slot") == e["slot"] and (bb.id, ii) >= (b.id, i)))
            guarded = False
            for cb, ci, ce in cmps:
                subj = assume.subject_of_call(ce, None)
                if subj is None:
                    continue
                # assume the comparison answered 0 (equal to DEFAULT): the member encoder must be unreachable until the
                # comparison is evaluated again (next member)
                pred = subj.pred()
                seen, st = set(), [(cb.id, ci + 1)]
                reach = False
                headers = {h for h, body in f.loops() if cb.id in body}
                while st:
                    bid, pos = st.pop()
                    if (bid, pos) in seen:
                        continue
                    seen.add((bid, pos))
                    blk = f.blocks[bid]
                    stop = False
                    if bid in headers and (bid, pos) != (cb.id, ci + 1):
                        continue        # next member: the comparison is evaluated afresh
                    for j in range(pos, len(blk.ev)):
                        if (bid, j) == (b.id, i):
                            reach = True
                            stop = True
                            break
                        if (bid, j) == (cb.id, ci):
                            stop = True
                            break
                        if blk.ev[j]["k"] == "return":
                            stop = True
                            break
                    if stop:
                        continue
                    alive = [idx for idx, s_ in enumerate(blk.succ) if s_ is not None]
                    if blk.term and "cond" in blk.term and len(blk.succ) >= 2 and blk.term["kind"] != "SwitchStmt":
                        v = assume.eval_under(blk.term["cond"]["tree"], pred, 0)
                        if v is not None:
                            alive = [0] if v else [1]
                    for idx in alive:
                        st.append((blk.succ[idx], 0))
                dom = f.dominators()
                dominates = (cb.id == b.id and ci < i) or (cb.id != b.id and cb.id in dom.get(b.id, ()))
                same_loop = any(cb.id in body and b.id in body for h, body in f.loops())
                if not reach and same_loop:
                    guarded = True
            if guarded:
                r.ok(f, key, "unreachable when default_value_cmp answers 0", e["line"])
            else:
                r.bad(f, key, "this member encoder call is reachable although the member equals its DEFAULT (no default_value_cmp test excludes it): "
                              "the value is encoded with the DEFAULT component present, which DER/CANONICAL forms forbid and the sibling codecs omit", e["line"])
    return r


def r06_3(prog, tab, rid="R06.3"):
    """Every pass over the members agrees on DEFAULT elimination: in the canonical SEQUENCE/SET encoders each loop that
    looks at a member's storage (element_ptr(), or the memb_offset field) contains a default_value_cmp call, and under
    the assumption that the call answered 0 no `presence effect` is reachable before the next member: no local flag is
    set to a non-zero constant, nothing is added (+=) to a size, and no encoder is called.  (`t2m_count++` in
    SET_encode_der is a slot counter that absent members advance too, so ++ is not an effect.)"""
    r = Rule(rid, "every member loop of the canonical SEQUENCE/SET encoders (presence bitmaps, extension flags, size passes) drops DEFAULT-valued members", floor=8)
    for name in tab["member_loop_functions"]:
        f = prog.func(name)
        if f is None:
            continue
        loops = f.loops()
        # innermost-first is irrelevant: every loop that touches member storage is an instance
        for h, body in sorted(loops, key=lambda x: x[0]):
            touches = False
            for bid in body:
                for e in f.blocks[bid].ev:
                    if e["k"] == "call" and e.get("callee") == "element_ptr":
                        touches = True
                    for fld in ("rhs", "init", "expr"):
                        if fld in e and any(n[0] == "member" and n[2] == "memb_offset" for n in walk(e[fld]["tree"])):
                            touches = True
            if not touches:
                continue
            line = min((f.blocks[bid].term or {}).get("line") or 10**9 for bid in body if f.blocks[bid].term) if any(f.blocks[bid].term for bid in body) else None
            key = "member-loop@%d" % sorted(h2 for h2, b2 in loops if any(
                ee["k"] == "call" and ee.get("callee") == "element_ptr" or any(
                    fld in ee and any(n[0] == "member" and n[2] == "memb_offset" for n in walk(ee[fld]["tree"])) for fld in ("rhs", "init", "expr"))
                for bb in b2 for ee in f.blocks[bb].ev)).index(h)
            cmps = [(f.blocks[bid], i, e) for bid in sorted(body) for i, e in enumerate(f.blocks[bid].ev)
                    if e["k"] == "call" and e.get("slot") == "default_value_cmp"]
            if not cmps:
                r.bad(f, key, "this loop over the members tests member storage but never consults default_value_cmp: a member "
                              "stored explicitly with its DEFAULT value is counted as present here while the sibling passes drop it", line)
                continue
            bad = None
            for cb, ci, ce in cmps:
                subj = assume.subject_of_call(ce, None)
                if subj is None:
                    bad = ("result of default_value_cmp is not tested", ce["line"])
                    break
                pred = subj.pred()
                seen, st = set(), [(cb.id, ci + 1, frozenset())]
                while st and not bad:
                    bid, pos, zeros = st.pop()
                    if (bid, pos, zeros) in seen or bid not in body:
                        continue
                    seen.add((bid, pos, zeros))
                    if bid == h and (bid, pos) != (cb.id, ci + 1):
                        continue
                    blk = f.blocks[bid]
                    stop = False
                    for j in range(pos, len(blk.ev)):
                        x = blk.ev[j]
                        if x["k"] == "return" or (bid, j) == (cb.id, ci):
                            stop = True
                            break
                        if x["k"] == "assign" and x.get("base_kind") == "local" and not x.get("deref") and x.get("lhs") == x.get("base"):
                            c = const_of(x["rhs"]["tree"]) if "rhs" in x else None
                            rv = strip_casts(x["rhs"]["tree"]) if "rhs" in x else None
                            if c is None and is_var(rv) and rv[1] in zeros:
                                c = 0       # a local that was set to 0 on this path (present = 0; exts_present += present)
                            if x.get("op") == "=":
                                zeros = (zeros | {x["base_id"]}) if c == 0 else (zeros - {x["base_id"]})
                            if (x.get("op") == "=" and c not in (None, 0)) or (x.get("op") == "+=" and c != 0):
                                if not x["base_id"].split("@")[0] in ("edx", "i", "n"):
                                    bad = ("`%s %s ...` is executed" % (x["lhs"], x["op"]), x["line"])
                                    break
                        if x["k"] == "call" and ((x.get("slot") in common.ENCODER_SLOTS) or x.get("callee") in ("oer_open_type_put", "uper_open_type_put")):
                            bad = ("an encoder is called", x["line"])
                            break
                    if stop or bad:
                        continue
                    alive = [idx for idx, s_ in enumerate(blk.succ) if s_ is not None]
                    if blk.term and "cond" in blk.term and len(blk.succ) >= 2 and blk.term["kind"] != "SwitchStmt":
                        v = assume.eval_under(blk.term["cond"]["tree"], pred, 0, {(z, None): 0 for z in zeros})
                        if v is not None:
                            alive = [0] if v else [1]
                    for idx in alive:
                        st.append((blk.succ[idx], 0, zeros))
                if bad:
                    break
            if bad:
                r.bad(f, key, "although default_value_cmp answered 0 (member equals its DEFAULT) %s at line %s before the next member: "
                              "this pass counts the member as present" % bad, line)
            else:
                r.ok(f, key, "consults default_value_cmp; under `equals DEFAULT` no flag/size/encoder effect before the next member", line)
    return r


def r06_4(prog, tab):
    """A normalised copy made by an encoder is the object that gets encoded.  In every function reachable from an
    encoder slot, a block obtained from an allocating helper (asn_time2GT_frac, asn_time2UT, OCTET_STRING_new_fromBuf,
    ... computed by the ownership summaries) and held in a local must be *used*: passed to a call that does not release
    it, dereferenced, returned or stored.  A copy that is only tested for NULL and freed is dead: the encoder went on
    with the caller's un-normalised representation."""
    from .. import ownership
    r = Rule("R06.4", "a normalised copy built inside an encoder is used for the encoding (never only NULL-tested and freed)", floor=6)
    summ = ownership.Summaries(prog, load_tables("c14"))
    summ.close_alloc_funcs()
    cg = prog.callgraph()
    scope = cg.reachable(common.slot_functions(prog, common.ENCODER_SLOTS))
    for k in sorted(scope):
        f = prog.funcs[k]
        for b, i, e in f.calls():
            if e.get("callee") not in summ.alloc_funcs:
                continue
            group, esc = ownership.holders_of_site(f, b, i, e)
            key = "%s->%s" % (e["callee"], ",".join(sorted(v.split("@")[0] for v in group)) or e.get("use"))
            if not group or esc:
                r.ok(f, key, "result stored outside the function or handed on directly", e["line"], nontrivial=False)
                continue
            used = None
            for b2, i2, x in f.events():
                if (b2.id, i2) == (b.id, i):
                    continue
                if x["k"] == "call":
                    rel = set(summ.releases(x))
                    for ai, a in enumerate(x.get("args", [])):
                        if ai in rel:
                            continue
                        if any(n[0] == "var" and n[1] in group for n in walk(a.get("tree"))):
                            used = x
                elif x["k"] in ("deref", "subscript") and x.get("base_id") in group:
                    used = x
                elif x["k"] == "return" and x.get("expr") and any(n[0] == "var" and n[1] in group for n in walk(x["expr"]["tree"])):
                    used = x
                elif x["k"] == "assign" and "rhs" in x and x.get("base_id") not in group and any(n[0] == "var" and n[1] in group for n in walk(x["rhs"]["tree"])):
                    used = x
                elif x["k"] == "assign" and x.get("base_id") in group and (x.get("deref") or x.get("lhs") != x.get("base")):
                    used = x
                if used:
                    break
            if used:
                r.ok(f, key, "the copy is used at line %s" % used.get("line"), e["line"])
            else:
                r.bad(f, key, "the object returned by %s is only NULL-tested and released: the encoding is produced from the caller's "
                              "representation, not from the normalised copy" % e["callee"], e["line"])
    return r


def r06_4b(prog, tab):
    """An encoder that normalises never encodes the caller's own representation on a canonical path.  Scope: encoder-slot
    functions that call an allocating normaliser (the functions R06.4 found).  The CFG is walked from the entry with
    the canonical flag (a parameter or local derived from XER_F_CANONICAL) assumed set where there is one; no call that
    is handed the function's own structure parameter (`sptr`) may be an encoder (a function of the fallible-output
    set): on a canonical path only the normalised copy is encoded."""
    from .. import ownership
    from . import c07
    r = Rule("R06.4b", "on canonical paths a normalising encoder hands only the normalised copy to the underlying encoder, never the caller's structure", floor=3)
    summ = ownership.Summaries(prog, load_tables("c14"))
    summ.close_alloc_funcs()
    fall = c07.fallible_functions(prog)
    slot_funcs = common.slot_functions(prog, common.ENCODER_SLOTS)
    for k in sorted(slot_funcs):
        f = prog.funcs[k]
        if not any(e.get("callee") in summ.alloc_funcs for b, i, e in f.calls()):
            continue
        sp = [p_["id"] for p_ in f.params if p_["type"].replace(" ", "") in ("constvoid*",)]
        if not sp:
            continue
        sp = sp[0]
        # canonical flag: the `flags` parameter of xer encoders
        flagp = next((p_["id"] for p_ in f.params if "xer_encoder_flags" in p_["type"]), None)

        def isflagtest(t):
            t = strip_casts(t)
            return isinstance(t, list) and t and t[0] == "bin" and t[1] == "&" and flagp is not None and is_var(strip_casts(t[2]), flagp) \
                and any(n[0] == "enum" and n[1] == "XER_F_CANONICAL" for n in walk(t[3]))
        seen, st = set(), [f.entry]
        reach = set()
        while st:
            bid = st.pop()
            if bid in seen or bid is None:
                continue
            seen.add(bid)
            reach.add(bid)
            blk = f.blocks[bid]
            alive = [s_ for s_ in blk.succ if s_ is not None]
            if blk.term and "cond" in blk.term and len(blk.succ) >= 2 and blk.term["kind"] != "SwitchStmt":
                v = assume.eval_under(blk.term["cond"]["tree"], isflagtest, 1)
                if v is not None:
                    alive = [blk.succ[0]] if v else [blk.succ[1]]
            st.extend(alive)
        n = 0
        for b, i, e in f.calls():
            if b.id not in reach:
                continue
            cal = prog.resolve_direct(e["callee"], f) if "callee" in e else None
            if cal is None or cal.key not in fall:
                continue
            n += 1
            key = "%s#%d" % (e["callee"], n)
            if any(is_var(strip_casts(a.get("tree")), sp) for a in e.get("args", [])):
                r.bad(f, key, "on a canonical path `%s` is given the caller's structure `%s` although this encoder builds a normalised copy: "
                              "the stored representation, not the abstract value, decides the bytes" % (e["callee"], sp.split("@")[0]), e["line"])
            else:
                r.ok(f, key, "the underlying encoder is given the normalised copy", e["line"])
    return r


def r06_5(prog, tab):
    """XER has no way to omit a DEFAULT: an absent DEFAULT member and one stored explicitly with the default value must
    print the same text, so the encoder prints the default for the absent one.  Sibling agreement between the XER
    encoders of SEQUENCE and SET: on the edge where the member pointer is NULL, the loop may only go on to the next
    member (skip) after the default_value_set slot was looked at -- a call through it, or a test of it on its NULL
    edge."""
    r = Rule("R06.5", "the XER encoders of SEQUENCE and SET print the DEFAULT value of an absent DEFAULT member (absent and explicit default give the same text)", floor=2)
    for name in tab["xer_default_materialisers"]:
        f = prog.func(name)
        if f is None:
            continue
        loops = f.loops()
        n = 0
        for b in f.blocks.values():
            t = b.term
            if not t or "cond" not in t or len(b.succ) < 2:
                continue
            c = strip_casts(t["cond"]["tree"])
            neg = False
            while isinstance(c, list) and c and c[0] == "un" and c[1] == "!":
                c = strip_casts(c[2])
                neg = not neg
            if not (is_var(c) and c[1].split("@")[0] == "memb_ptr"):
                continue
            null_succ = b.succ[0] if neg else b.succ[1]
            hdrs = [h for h, body in loops if b.id in body]
            if not hdrs or null_succ is None:
                continue
            n += 1
            key = "absent-member@%d" % n
            # from the NULL edge: can a loop header be reached without meeting the default_value_set slot?
            seen, st, skipped = set(), [null_succ], None
            while st and skipped is None:
                bid = st.pop()
                if bid in seen or bid is None:
                    continue
                seen.add(bid)
                blk = f.blocks[bid]
                if bid in hdrs:
                    skipped = bid
                    break
                if any(e["k"] == "call" and e.get("slot") == "default_value_set" for e in blk.ev):
                    continue
                if any(e["k"] == "return" for e in blk.ev):
                    continue
                if blk.term and "cond" in blk.term and any(nd[0] == "member" and nd[2] == "default_value_set" for nd in walk(blk.term["cond"].get("full_tree") or blk.term["cond"]["tree"])):
                    # the slot is looked at: its NULL edge may skip (no DEFAULT), its non-NULL edge is followed
                    st.append(blk.succ[0])
                    continue
                st.extend(blk.succs())
            if skipped is None:
                r.ok(f, key, "an absent member is skipped only where it has no default_value_set", t.get("line"))
            else:
                r.bad(f, key, "an absent member is skipped without looking at default_value_set: an absent DEFAULT prints nothing while the same "
                              "value stored explicitly prints the element; the sibling encoder materialises the default", t.get("line"))
    return r


def r06_6(prog, tab):
    """A type whose encoder for one canonical syntax rewrites the value into its canonical form (the time types: GMT,
    `Z`, no trailing zeros) does so for every canonical syntax.  Per op table: if some encoder slot holds a function that
    calls a time normaliser, every non-NULL encoder slot (DER, OER, UPER, XER) must hold such a function; a slot filled
    with the generic OCTET STRING encoder writes the stored text verbatim, so `+0100` and `Z` forms of one instant
    differ."""
    r = Rule("R06.6", "op tables whose type normalises in one encoder normalise in every canonical encoder slot", floor=2)
    norm = set(tab["time_normalisers"])
    normalising = {f.name for f in prog.funcs.values() if any(e.get("callee") in norm for b, i, e in f.calls())}
    for tname, slots in sorted(prog.op_tables.items()):
        encs = {s_: slots.get(s_) for s_ in ("der_encoder", "oer_encoder", "uper_encoder", "xer_encoder")}
        names = {s_: (v[3:] if isinstance(v, str) and v.startswith("fn:") else None) for s_, v in encs.items()}
        if not any(n in normalising for n in names.values() if n):
            continue
        for s_, n in sorted(names.items()):
            if not n:
                continue
            key = "%s.%s" % (tname, s_)
            if n in normalising:
                r.add("skeletons/%s.c" % tname[len("asn_OP_"):], tname, key, "pass", "%s normalises" % n, None)
            else:
                r.add("skeletons/%s.c" % tname[len("asn_OP_"):], tname, key, "violation", "%s is filled with %s, which writes the stored representation verbatim, while %s of the same "
                      "type normalise(s): two representations of one instant encode differently in this syntax" % (
                          s_, n, ", ".join(sorted(x for x in names.values() if x in normalising))), None)
    return r


def r06_7(prog, tab, rid="R06.7"):
    """DEFAULT elimination does not depend on how the member is stored.  Whether a DEFAULT member is an inline field or a
    pointer is a code-generation choice (-fwide-types, try_inline_default), not a property of the value; the canonical
    form may not depend on it.  In every function that calls `default_value_cmp`: for each test of ATF_POINTER, if one
    arm reaches a default_value_cmp call before the next storage test, so does the other arm."""
    r = Rule(rid, "in the member passes, DEFAULT elimination (default_value_cmp) is reached from both arms of every ATF_POINTER storage test", floor=6)
    enc = common.slot_functions(prog, common.ENCODER_SLOTS)
    for f in sorted(prog.funcs.values(), key=lambda f: f.key):
        cmp_blocks = {b.id for b, i, e in f.calls() if e.get("slot") == "default_value_cmp"}
        if not cmp_blocks:
            continue
        if f.key not in enc and f.name not in tab["member_loop_functions"]:
            # SEQUENCE_compare asks the question only where one side is absent, which only a pointer member can be
            continue
        tests = []
        for b in f.blocks.values():
            if b.term and "cond" in b.term and len(b.succ) >= 2 and None not in b.succ[:2]:
                ct = b.term["cond"].get("full_tree") or b.term["cond"]["tree"]
                if any(n[0] == "enum" and n[1] == "ATF_POINTER" for n in walk(b.term["cond"]["tree"])):
                    tests.append(b)
        tids = {b.id for b in tests}
        n = 0
        for b in sorted(tests, key=lambda b: b.id):
            arms = []
            for s_ in b.succ[:2]:
                reach = f.reachable_from([s_], stop=lambda bid: bid in tids)
                arms.append(bool(reach & cmp_blocks) or s_ in cmp_blocks)
            n += 1
            key = "storage-test#%d" % n
            line = b.term.get("line")
            if arms[0] == arms[1]:
                r.ok(f, key, "both arms %s a default_value_cmp call before the next storage test" % ("reach" if arms[0] else "do not reach"), line, nontrivial=arms[0])
            else:
                r.bad(f, key, "only the %s arm of this ATF_POINTER test reaches the default_value_cmp call: a member equal to its DEFAULT is dropped "
                              "or kept depending on how the C structure stores it" % ("pointer" if arms[0] else "inline"), line)
    return r


def r06_8(prog, tab):
    """Whether the last octet of a BIT STRING is masked does not depend on what is in it.  The mask of the used bits,
    `0xff << bits_unused`, is for *writing* the last octet (`b = last & mask`, `last &= mask`).  In the functions
    reachable from the encoder slots it never appears inside a branch condition: a test like
    `if(last & (0xff << bits_unused)) fix_last_byte = 1;` skips the masking exactly when all used bits of the last octet
    are zero, and the garbage of the unused bits goes out."""
    r = Rule("R06.8", "in the encoders the used-bits mask `0xff << bits_unused` is applied to what is written, never used to decide whether to mask", floor=2)
    cg = prog.callgraph()
    scope = cg.reachable(common.slot_functions(prog, common.ENCODER_SLOTS))

    def mk_is_mask(derived):
        def is_mask(nd):
            return (isinstance(nd, list) and nd and nd[0] == "bin" and nd[1] == "<<" and const_of(nd[2]) == 0xff
                    and any((m[0] == "member" and m[2] == "bits_unused") or (m[0] == "var" and m[1] in derived) for m in walk(nd[3])))
        return is_mask
    for k in sorted(scope):
        f = prog.funcs[k]
        n = 0
        derived = set()
        for b, i, e in f.events():
            tr = (e.get("init") or e.get("rhs") or {}).get("tree") if e["k"] in ("decl", "assign") else None
            vid = e.get("id") if e["k"] == "decl" else (strip_casts(e["lhs_tree"])[1] if e["k"] == "assign" and is_var(e.get("lhs_tree")) else None)
            if tr is not None and vid and any(m[0] == "member" and m[2] == "bits_unused" for m in walk(tr)):
                derived.add(vid)
        is_mask = mk_is_mask(derived)
        for b in f.blocks.values():
            if b.term and "cond" in b.term:
                ct = b.term["cond"].get("full_tree") or b.term["cond"]["tree"]
                for nd in walk(ct):
                    if is_mask(nd):
                        n += 1
                        r.bad(f, "mask-in-condition#%d" % n, "`%s` decides a branch: the last octet is masked (or not) depending on its own used bits, so a "
                                                              "value whose used bits are all zero keeps the garbage of its unused bits" % tree_text(ct)[:70], b.term.get("line"))
        for b, i, e in f.events():
            trees = []
            if e["k"] in ("assign", "decl"):
                trees = [(e.get("rhs") or e.get("init") or {}).get("tree")]
            elif e["k"] == "call":
                trees = [a.get("tree") for a in e.get("args", [])]
            for t in trees:
                if t is not None and any(is_mask(nd) for nd in walk(t)):
                    n += 1
                    r.ok(f, "mask-applied#%d" % n, "the mask is applied to a value that is stored or written", e.get("line"))
    return r


def r06_9(prog, tab):
    """Every variable-length output of an INTEGER_t goes through the minimal-octets test.  X.690 8.3.2 defines the
    superfluous leading octet by the first octet and bit 8 of the second (`buf[1] & 0x80`); DER, canonical PER and the
    text forms all need it so that a value stored with redundant leading octets (as decoded from non-minimal BER) comes
    out like the minimal one.  Each encoder slot of asn_OP_INTEGER, and the text dumper the print and XER slots share,
    contains that test itself or calls a function of the INTEGER files that does."""
    r = Rule("R06.9", "every INTEGER encoder applies the superfluous-leading-octet test (first octet and bit 8 of the second)", floor=4)
    tab_ = prog.op_tables.get("asn_OP_INTEGER")
    if not tab_:
        raise AnalysisBroken("asn_OP_INTEGER not found")
    cg = prog.callgraph()

    def has_test(f):
        for b in f.blocks.values():
            if not (b.term and "cond" in b.term):
                continue
            ct = b.term["cond"].get("full_tree") or b.term["cond"]["tree"]
            for nd in walk(ct):
                if nd[0] == "bin" and nd[1] == "&" and const_of(nd[3]) == 0x80:
                    l = strip_casts(nd[2])
                    if isinstance(l, list) and l and l[0] == "sub" and const_of(l[2]) == 1:
                        return True
        return False

    def is_emitter(g):
        return any("asn_app_consume_bytes_f" in p["type"] or "asn_per_outp" in p["type"] for p in g.params)

    def reaches_test(f, seen=None):
        """the function tests it itself, or hands the job to another *emitting* function of the INTEGER files that does
        (a conversion helper such as asn_INTEGER2long has the test too, but what it yields is a number, not the octets)"""
        seen = seen if seen is not None else set()
        if f.key in seen:
            return False
        seen.add(f.key)
        if has_test(f):
            return True
        for b, i, e, tg in cg.sites[f.key]:
            for t in tg:
                g = prog.funcs[t]
                if "INTEGER" in g.relfile and is_emitter(g) and reaches_test(g, seen):
                    return True
        return False
    for slot in ("der_encoder", "xer_encoder", "oer_encoder", "uper_encoder", "print_struct"):
        v = tab_.get(slot)
        if not (isinstance(v, str) and v.startswith("fn:")):
            continue
        f = prog.func(v[3:])
        if f is None:
            continue
        key = "asn_OP_INTEGER.%s" % slot
        if reaches_test(f):
            r.ok(f, key, "%s (or a callee in the INTEGER files) tests the first octet against bit 8 of the second" % f.name, f.line)
        else:
            r.bad(f, key, "%s writes the stored octets without the superfluous-leading-octet test: 5 stored as 00 00 05 and as 05 give "
                          "different output" % f.name, f.line)
    return r


def _reaches(f, cb, b):
    return b.id in f.reachable_from([cb.id])


def run(ctx):
    prog = ctx.prog("S")
    tab = load_tables("c06")
    return [r06_1(prog, tab), r06_1b(prog, tab), r06_1c(prog, tab), r06_2(prog, tab), r06_3(prog, tab), r06_4(prog, tab), r06_4b(prog, tab), r06_5(prog, tab), r06_6(prog, tab), r06_7(prog, tab), r06_8(prog, tab), r06_9(prog, tab)]


def thorough(ctx):
    from .. import selftest
    import sys
    return selftest.run_mutants("C06", sys.modules[__name__])
