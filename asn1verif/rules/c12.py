"""C12 deterministic output — R12.1 no run-dependent value can reach output."""
from ..engine import Rule, load_tables
from ..extract import AnalysisBroken
from ..model import walk, strip_casts, is_var, tree_text

EXPLANATION = (
    "Who-may-call and effect rules over the compiler (libasn1*, asn1c): from the roots main/asn1p_parse_file/"
    "asn1f_process/asn1print/asn1_compile, (a) hash-table iteration (genhash_iter*/genhash_walk: bucket order depends "
    "on pointer values/insertion history) is called only from the diagnostic allow-list; (b) no call to a clock, "
    "random, process-id or temp-name routine; (c) no %p conversion in a format string of a reachable call that "
    "writes output; (d) every comparator handed to qsort/bsearch orders by the pointed-to data, never by comparing or "
    "subtracting the element addresses themselves; (e) directory enumeration is confined to the allow-listed loader.")
NOT_DECIDED = "byte identity of the output itself, file-order independence, the -E print/parse fixpoint (behavioural)"
ASSUMPTIONS = ["genhash lookups (genhash_get/add/del) are order-independent; only iteration exposes bucket order"]

BANNED = {"time": "wall clock", "clock": "cpu clock", "gettimeofday": "wall clock", "clock_gettime": "clock", "rand": "random",
          "random": "random", "srand": "random", "srandom": "random", "drand48": "random", "getpid": "process id",
          "getppid": "process id", "tmpnam": "temporary name", "tempnam": "temporary name", "ctime": "wall clock text",
          "localtime": "time zone dependent", "gmtime": "clock", "getenv": "environment dependent", "gethostname": "host dependent",
          "getuid": "user dependent", "getcwd": "directory dependent"}
HASH_ITER = {"genhash_iter_init", "genhash_iter", "genhash_walk", "genhash_iter_done"}
DIR_ENUM = {"readdir", "scandir", "glob"}


def run(ctx):
    prog = ctx.prog("K")
    tab = load_tables("c12")
    cg = prog.callgraph()
    roots = [prog.require(n).key for n in ("main", "asn1_compile", "asn1print", "asn1f_process", "asn1p_parse_file")]
    scope = cg.reachable(roots)
    ra = Rule("R12.1a", "hash-table iteration order never reaches generated output: iteration is confined to the diagnostic allow-list", floor=1)
    rb = Rule("R12.1b", "no clock, random, pid, environment or temp-name source is read by the compiler", floor=100)
    rc = Rule("R12.1c", "no pointer value is formatted into output", floor=100)
    rd = Rule("R12.1d", "sort comparators order by content, not by element addresses", floor=4)
    hash_allow = {x["function"]: x["reason"] for x in tab["hash_iteration_allowed"]}
    dir_allow = {x["function"]: x["reason"] for x in tab["dir_enumeration_allowed"]}
    fmt_allow = {(x["function"], x["callee"]): x["reason"] for x in tab.get("pointer_format_allowed", [])}
    ban_allow = {(x["function"], x["callee"]): x["reason"] for x in tab.get("banned_allowed", [])}
    comparators = set()
    seen_hash = False
    for k in sorted(scope):
        f = prog.funcs[k]
        clean_b = True
        nfmt = 0
        for b, i, e in f.calls():
            cal = e.get("callee")
            if cal in HASH_ITER:
                seen_hash = True
                if f.name in hash_allow:
                    ra.exc(f, cal, hash_allow[f.name], e["line"])
                else:
                    ra.bad(f, cal, "iterates a hash table (bucket order depends on addresses/insertion history) outside the diagnostic allow-list: "
                                   "anything emitted in this order differs between runs or input orders", e["line"],
                           witness={"call_path": cg.path(roots, k)})
            if cal in DIR_ENUM:
                if f.name in dir_allow:
                    ra.exc(f, cal, dir_allow[f.name], e["line"])
                else:
                    ra.bad(f, cal, "enumerates a directory (order is file-system dependent)", e["line"])
            if cal in BANNED:
                clean_b = False
                if (f.name, cal) in ban_allow:
                    rb.exc(f, cal, ban_allow[(f.name, cal)], e["line"])
                else:
                    rb.bad(f, cal, "calls %s (%s): the output can differ between two runs on the same input" % (cal, BANNED[cal]), e["line"],
                           witness={"call_path": cg.path(roots, k)})
            for a in e.get("args", []):
                for s_ in a.get("strs", []):
                    if "%" in s_:
                        nfmt += 1
                        if "%p" in s_:
                            if (f.name, cal or "?") in fmt_allow:
                                rc.exc(f, "%%p:%s" % (cal or "?"), fmt_allow[(f.name, cal or "?")], e["line"])
                            else:
                                rc.bad(f, "%%p:%s" % (cal or "?"), "format string \"%s\" prints a pointer value" % s_[:40], e["line"])
            if cal in ("qsort", "bsearch"):
                for a in e.get("args", []):
                    for n in walk(a.get("tree")):
                        if n[0] == "fn":
                            comparators.add(n[1])
        if clean_b:
            rb.ok(f, "*", "no call to a clock/random/pid/environment/temp-name routine", f.line, nontrivial=False)
        rc.ok(f, "formats", "%d format strings, none with %%p" % nfmt, f.line, nontrivial=False) if nfmt else None
    if not seen_hash:
        # the allow-listed diagnostic must still exist, otherwise the rule matches nothing for ever
        raise AnalysisBroken("no hash iteration found at all: the allow-listed site vanished (extractor or code drifted)")
    for name in sorted(comparators):
        f = prog.func(name)
        if f is None:
            continue
        bad = None
        ptr_params = {p["id"] for p in f.params if "*" in p["type"]}
        # locals that are plain copies/casts of the parameters (const T *a = ap;) are element addresses too
        addr = set(ptr_params)
        for b, i, e in f.events():
            if e["k"] == "decl" and "init" in e and "*" in e.get("type", ""):
                t = strip_casts(e["init"]["tree"])
                if is_var(t) and t[1] in addr:
                    addr.add(e["id"])
        for b, i, e in f.events():
            trees = []
            if e["k"] == "return" and e.get("expr"):
                trees.append(e["expr"]["tree"])
            if e["k"] in ("assign", "decl"):
                trees.append((e.get("rhs") or e.get("init") or {}).get("tree"))
            for b2 in [b]:
                if b2.term and "cond" in b2.term:
                    trees.append(b2.term["cond"].get("full_tree") or b2.term["cond"]["tree"])
            for t in trees:
                for n in walk(t):
                    if n[0] == "bin" and n[1] in ("<", ">", "<=", ">=", "-"):
                        l, r_ = strip_casts(n[2]), strip_casts(n[3])
                        if is_var(l) and is_var(r_) and l[1] in addr and r_[1] in addr:
                            bad = (e, tree_text(n))
        if bad:
            rd.bad(f, "address-order", "comparator orders elements by their addresses (`%s`): the result depends on the allocator" % bad[1], bad[0].get("line"))
        else:
            rd.ok(f, "address-order", "comparator never compares or subtracts the element addresses themselves", f.line)
    from . import c11
    r4 = Rule("R12.4", "what a type copies from a type of another module does not depend on which module was processed first (module-wide pass barriers)", floor=1)
    c11.module_barriers_rule(prog, tab.get("module_barriers", []), r4)
    return [ra, rb, rc, rd, r12_2(prog, scope), r12_3(prog), r4, r12_5(prog, tab), r12_6(prog, tab), r12_7(prog, tab), r12_8(prog)]


def r12_6(prog, tab):
    """State the scanner passes to the parser behind the token stream starts afresh with every input file.  A file-scope
    variable of libasn1parser that the scanner function writes and the parser function reads (or the other way round),
    other than the flex/bison token interface, keeps its value from one asn1p_parse() to the next; what the previous
    file left in it then shapes the first construct of the next one, and the generated files depend on the order of
    the files on the command line.  Every call of the parser must be preceded, in its caller (directly or in a callee
    called on the way), by an assignment to each such variable."""
    r = Rule("R12.6", "a variable shared between the scanner and the parser behind the token stream is reset before every parse", floor=2)
    lex = prog.require(tab["parse_entry"]["scanner"])
    par = prog.require(tab["parse_entry"]["parser"])
    skip = tab["scanner_interface"]

    def touched(f):
        wr, rd = set(), set()
        for b, i, e in f.events("assign"):
            lt = strip_casts(e.get("lhs_tree"))
            if is_var(lt) and lt[2] not in ("local", "param"):
                wr.add(lt[1])
        for b, line, tree in f.all_trees():
            for n in walk(tree):
                if n[0] == "var" and n[2] not in ("local", "param"):
                    rd.add(n[1])
        return wr, rd
    lw, lr = touched(lex)
    pw, pr = touched(par)
    shared = ((lw & pr) | (pw & lr))
    shared = {v for v in shared if not v.startswith("yy") and v not in skip}
    gl = {g["id"]: g for g in prog.globals if not g.get("const") and not g.get("in_function")}
    shared = {v for v in shared if v in gl}
    cg = prog.callgraph()

    def assigns(f, v, seen=None):
        """function f (or a callee) assigns v"""
        seen = seen if seen is not None else set()
        if f.key in seen:
            return False
        seen.add(f.key)
        for b, i, e in f.events("assign"):
            if is_var(e.get("lhs_tree"), v):
                return True
        for b, i, e, tg in cg.sites[f.key]:
            for t in tg:
                if t != par.key and t != lex.key and t in prog.funcs and assigns(prog.funcs[t], v, seen):
                    return True
        return False
    callers = [(f, b, i, e) for f in prog.funcs.values() for b, i, e in f.calls() if e.get("callee") == par.name and f.key not in (par.key, lex.key)]
    if not callers:
        raise AnalysisBroken("no caller of %s found" % par.name)
    from .c15 import must_pass
    for v in sorted(shared):
        for f, b, i, e in callers:
            key = "%s before %s()" % (v, par.name)

            def settles(y, v=v, f=f):
                if y["k"] == "assign" and is_var(y.get("lhs_tree"), v):
                    return True
                if y["k"] == "call" and y.get("callee") and y["callee"] not in (par.name, lex.name):
                    t = prog.func(y["callee"])
                    return t is not None and assigns(t, v)
                return False
            ok = any(settles(y) for y in b.ev[:i]) or (b.id != f.entry and must_pass(f, f.entry, b.id, i, settles))
            if ok:
                r.ok(f, key, "assigned on every path to the parser call", e["line"])
            else:
                r.bad(f, key, "`%s` is written by %s and read by %s (or the reverse), and %s calls the parser without assigning it: it still holds "
                              "what the previous input file left there" % (v, lex.name, par.name, f.name), e["line"])
    return r


def r12_7(prog, tab=None, rid="R12.7"):
    """A text held in a function's static buffer is used before the next call that refills the buffer.  The compiler's
    name and number formatters (asn1p_itoa, asn1c_make_identifier and what returns its result, asn1f_printable_value,
    asn1p_ref_string, ...) answer a pointer into a static buffer; the set is computed (functions returning the address of
    one of their static locals, or the result of such a function), as is the set of functions that refill each buffer
    (call-graph closure).  Where the result is kept in a local, no use of the local is reachable after a call that
    refills the same buffer: it would silently read the other text (digits of another number, another type's name) and
    the output would no longer be a function of the input alone."""
    import collections
    from ..model import const_of
    r = Rule(rid, "a pointer into a formatter's static buffer kept in a local is not used after a call that refills that buffer", floor=10)
    exc = {(x["function"], x["key"]): x["reason"] for x in (tab or {}).get("r12_7_exceptions", [])}
    statics = collections.defaultdict(set)
    for g in prog.globals:
        if g.get("in_function"):
            statics[g["in_function"]].add(g["id"])
    owner = {}
    for f in prog.funcs.values():
        if "char" not in f.ret_type or "*" not in f.ret_type:
            continue
        for b, i, e in f.returns():
            ex = e.get("expr")
            if ex and is_var(ex["tree"]) and strip_casts(ex["tree"])[1] in statics.get(f.name, ()):
                owner[f.name] = f.name
    ch = True
    while ch:
        ch = False
        for f in prog.funcs.values():
            if f.name in owner or "char" not in f.ret_type or "*" not in f.ret_type:
                continue
            for b, i, e in f.returns():
                ex = e.get("expr")
                t = strip_casts(ex["tree"]) if ex else None
                if isinstance(t, list) and t and t[0] == "call" and t[2] in owner:
                    owner[f.name] = owner[t[2]]
                    ch = True
    if len(owner) < 5:
        raise AnalysisBroken("static-buffer formatters found: %s" % sorted(owner))
    cg = prog.callgraph()
    clob = collections.defaultdict(set)
    for n_, o in owner.items():
        clob[n_].add(o)
    ch = True
    while ch:
        ch = False
        for f in prog.funcs.values():
            cur = set(clob[f.name])
            for b, i, e, tg in cg.sites[f.key]:
                for t in tg:
                    cur |= clob[prog.funcs[t].name]
            if cur != clob[f.name]:
                clob[f.name] = cur
                ch = True
    r.note("static-buffer formatters: %s" % ", ".join("%s(%s)" % (k, v) if k != v else k for k, v in sorted(owner.items())))
    for f in sorted(prog.funcs.values(), key=lambda f: f.key):
        n = 0
        for b, i, e in f.calls():
            cal = e.get("callee")
            if cal not in owner or e.get("use") not in ("assigned", "init"):
                continue
            ui = e.get("useinfo", {})
            vid = ui.get("var") or (strip_casts(ui["lhs_tree"])[1] if ui.get("lhs_tree") is not None and is_var(ui["lhs_tree"]) else None)
            if not vid:
                continue
            # only a plain `p = f(...)`: a result handed to strdup() etc. is a copy
            if ui.get("lhs_tree") is None and not ui.get("var"):
                continue
            o = owner[cal]
            n += 1
            key = "%s=%s()#%d" % (vid.split("@")[0], cal, n)
            seen, st, bad = set(), [(b.id, i + 1, None)], None
            while st and not bad:
                bid, idx, cl = st.pop()
                if (bid, idx, cl) in seen:
                    continue
                seen.add((bid, idx, cl))
                blk = f.blocks[bid]
                stop = False
                for j in range(idx, len(blk.ev)):
                    y = blk.ev[j]
                    if (y["k"] == "assign" and is_var(y.get("lhs_tree"), vid) and y.get("op") == "=") or (y["k"] == "decl" and y.get("id") == vid):
                        src = (y.get("rhs") or y.get("init") or {}).get("tree")
                        if src is not None and any(nd[0] == "call" and nd[1] == e.get("id") for nd in walk(src)):
                            continue          # the store of this very result
                        stop = True
                        break
                    trees = [a.get("tree") for a in y.get("args", [])] if y["k"] == "call" else [(y.get("rhs") or y.get("init") or y.get("expr") or {}).get("tree")]
                    uses = any(t is not None and any(nd[0] == "var" and nd[1] == vid for nd in walk(t)) for t in trees)
                    if uses and cl:
                        bad = (y.get("line"), cl)
                        break
                    if y["k"] == "call" and y.get("callee") and o in clob.get(y["callee"], ()):
                        same = y["callee"] == cal and [tree_text(a.get("tree")) for a in y.get("args", [])] == [tree_text(a.get("tree")) for a in e.get("args", [])]
                        # the same formatter called again with the same arguments leaves the same text in the buffer
                        cl = None if same else (y.get("line"), y["callee"])
                if stop or bad:
                    continue
                if cl and blk.term and "cond" in blk.term and any(nd[0] == "var" and nd[1] == vid for nd in walk(blk.term["cond"]["tree"])):
                    bad = (blk.term.get("line"), cl)
                    break
                for s_ in blk.succs():
                    st.append((s_, 0, cl))
            if bad is None:
                r.ok(f, key, "every use of the local comes before the next call that refills %s's buffer" % o, e["line"])
            elif (f.name, key) in exc:
                r.exc(f, key, exc[(f.name, key)], e["line"])
            else:
                r.bad(f, key, "`%s` points into the static buffer of %s; %s (line %s) refills that buffer and `%s` is used again at line %s: it now "
                              "reads the other text" % (vid.split("@")[0], o, bad[1][1], bad[1][0], vid.split("@")[0], bad[0]), e["line"])
    return r


def r12_8(prog):
    """A temporary output file is renamed into place or removed.  The code generator writes every file under a temporary
    name obtained from asn1c_open_file(.., &tmpname) and then either renames it over the target or, when the contents
    are unchanged, unlinks it.  On every path from the open call to a successful return (constant 0) there is a
    rename() or unlink() of that very name.  A temporary that stays behind makes the contents of the output directory
    depend on how often (and with which random suffixes) asn1c was run into it."""
    from .c15 import must_pass
    from ..model import const_of
    r = Rule("R12.8", "every temporary output file is renamed into place or unlinked before a successful return", floor=2)
    for f in sorted(prog.funcs.values(), key=lambda f: f.key):
        if "libasn1compiler/" not in f.relfile:
            continue
        for b, i, e in f.calls():
            if e.get("callee") != "asn1c_open_file":
                continue
            outs = []
            for a in e.get("args", []):
                t = strip_casts(a.get("tree"))
                if isinstance(t, list) and t and t[0] == "un" and t[1] == "&" and is_var(t[2]):
                    outs.append(strip_casts(t[2])[1])
            for v in outs:
                key = "tmp:%s" % v.split("@")[0]

                def disposes(y, v=v):
                    return y["k"] == "call" and y.get("callee") in ("rename", "unlink") and any(is_var(a.get("tree"), v) for a in y.get("args", []))
                bad = None
                for rb, ri, re_ in f.returns():
                    ex = re_.get("expr")
                    if not (ex and const_of(ex["tree"]) == 0):
                        continue
                    if rb.id != b.id and rb.id not in f.reachable_from(b.succs()):
                        continue
                    if any(disposes(y) for y in b.ev[i + 1:]):
                        continue
                    if not all(must_pass(f, s_, rb.id, ri, disposes) for s_ in b.succs()):
                        bad = re_
                        break
                if bad is None:
                    r.ok(f, key, "renamed or unlinked on every path to a successful return", e["line"])
                else:
                    r.bad(f, key, "the successful return at line %s can be reached with the temporary file `%s` neither renamed nor unlinked: it "
                                  "stays in the output directory under its random name" % (bad.get("line"), v.split("@")[0]), e["line"])
    return r


def r12_5(prog, tab):
    """The -E printer covers what the grammar stores in a module.  Every field of asn1p_module_t that code in
    libasn1parser writes (the grammar actions and the helpers they call) is read somewhere in libasn1print, unless the
    table lists it as bookkeeping.  A field that is parsed and never printed makes the printed module a different
    module: it is not accepted again, or means something else."""
    r = Rule("R12.5", "every syntactic field of a parsed module is read by the -E printer", floor=4)
    skip = {x["field"]: x["reason"] for x in tab.get("module_fields_not_syntax", [])}

    def module_fields(trees):
        out = set()
        for t in trees:
            for n in walk(t):
                if n[0] == "member" and str(n[4]).replace("struct ", "").strip() in ("asn1p_module_s", "asn1p_module_t"):
                    out.add(n[2])
        return out
    written, read = set(), set()
    for f in prog.funcs.values():
        if "libasn1parser/" in f.relfile:
            for b, i, e in f.events("assign"):
                if e.get("lhs_tree") is not None:
                    written |= module_fields([e["lhs_tree"]])
            # list heads are filled through TQ_ADD(&mod->imports, ...): the address of the field handed to / used in a store
            for b, line, tree in f.all_trees():
                for n in walk(tree):
                    if n[0] == "un" and n[1] == "&":
                        written |= module_fields([n[2]])
        if "libasn1print/" in f.relfile:
            for b, line, tree in f.all_trees():
                read |= module_fields([tree])
    if len(written) < 4:
        raise AnalysisBroken("fields of asn1p_module_t written by the parser: %s" % sorted(written))
    g = prog.func("asn1print_module") or prog.func("asn1print")
    for fld in sorted(written):
        if fld in skip:
            r.add("libasn1print/asn1print.c", "asn1print_module", "module." + fld, "exception", skip[fld], None)
        elif fld in read:
            r.add("libasn1print/asn1print.c", "asn1print_module", "module." + fld, "pass", "read by the printer", None)
        else:
            r.add("libasn1print/asn1print.c", "asn1print_module", "module." + fld, "violation", "the parser fills `%s` of a module and nothing in "
                  "libasn1print reads it: what the source said there is missing from the -E text" % fld, None)
    return r



def r12_3(prog):
    """The parser's line counter does not carry over from one input to the next.  asn1p_lineno (the lexer's yylineno) ends
    up in generated names (`<Type>_<line>P<n>` of parameterised instances) and in -fline-refs output, so it must be set on
    every path to each call of the generated parser asn1p_parse() from hand-written code: otherwise the lines of the
    second file continue where the first stopped and the per-type files depend on the order of the file names."""
    from .c15 import must_pass
    r = Rule("R12.3", "every entry into the generated parser sets the line counter first", floor=2)
    n = 0
    for f in sorted(prog.funcs.values(), key=lambda f: f.key):
        if f.relfile.endswith(("asn1p_y.c", "asn1p_l.c")):
            continue
        for b, i, e in f.calls():
            if e.get("callee") != "asn1p_parse":
                continue
            n += 1

            def sets(y):
                return y["k"] == "assign" and y.get("op") == "=" and (y.get("base") == "asn1p_lineno" or y.get("lhs") == "asn1p_lineno")
            ok = any(sets(y) for y in b.ev[:i]) or must_pass(f, f.entry, b.id, i, sets)
            if ok:
                r.ok(f, "asn1p_parse", "asn1p_lineno is assigned on every path to the parser call", e["line"])
            else:
                r.bad(f, "asn1p_parse", "the generated parser is entered without setting asn1p_lineno: line numbers continue from the previous "
                                        "input, and names that embed a line number depend on the order of the input files", e["line"])
    if n == 0:
        raise AnalysisBroken("no call of asn1p_parse found outside the generated parser")
    return r


TERMINATING_CALLS = {"strcpy", "strcat", "snprintf", "sprintf", "vsnprintf", "vsprintf"}


def r12_2(prog, scope):
    """Strings assembled character by character are terminated by the code that assembled them.

    In every compiler function that returns a character pointer, each store of a non-NUL character through a
    `char *` (`*p++ = c`, `*p = c`) is followed on every path to a `return <pointer expression>` by a NUL store
    through a `char *` or by a terminating libc string call.  Otherwise what follows the last character is
    whatever the (reused, static or heap) buffer held before -- text from an earlier call, i.e. from a value printed
    earlier in this run -- and the text written into a generated file depends on the order in which modules were
    processed (or, with an uninitialised allocation, on the heap)."""
    from ..model import const_of
    r = Rule("R12.2", "a string built character by character is NUL-terminated by its builder on every path: no stale buffer content can follow it", floor=8)
    for k in sorted(scope):
        f = prog.funcs[k]
        if not ("char" in f.ret_type and f.ret_type.rstrip().endswith("*")):
            continue
        if f.relfile.endswith(("asn1p_y.c", "asn1p_l.c")):
            continue    # bison/flex skeleton code (yystpcpy copies the terminator inside its loop condition)

        def charstore(e):
            return e["k"] == "assign" and e.get("deref") and e.get("op") == "=" and e.get("base_type", "").replace("const ", "").strip() in ("char *", "unsigned char *", "uint8_t *")
        stores = [(b, i, e) for b, i, e in f.events("assign") if charstore(e)]
        if not stores:
            continue

        def is_nul(e):
            return charstore(e) and const_of(e["rhs"]["tree"]) == 0
        n = 0
        dom = f.dominators()
        term_blocks = {b2.id: i2 for b2, i2, x in f.calls() if x.get("callee") in TERMINATING_CALLS}
        for b, i, e in sorted(stores, key=lambda x: (x[2].get("line") or 0, x[0].id, x[1])):
            if is_nul(e):
                continue
            # `*p = c` (the pointer is not advanced by the store) after a terminating libc call that dominates it: a character of
            # an already terminated string is replaced in place, nothing is appended
            lt = strip_casts(e.get("lhs_tree"))
            advancing = isinstance(lt, list) and lt and lt[0] == "un" and lt[1] == "*" and isinstance(strip_casts(lt[2]), list) \
                and strip_casts(lt[2])[0] == "un" and strip_casts(lt[2])[1] in ("++post", "++", "--post", "--")
            if not advancing and any((tb == b.id and ti < i) or (tb != b.id and tb in dom.get(b.id, ())) for tb, ti in term_blocks.items()):
                r.ok(f, "inplace@%s" % e["line"], "in-place replacement inside a string terminated by a dominating libc call", e["line"], nontrivial=False)
                continue
            n += 1
            key = "store@%d:%s" % (n, " ".join(e["rhs"]["text"].split())[:24])
            # forward search: stop at terminators and at further character stores (they are instances of their own)
            seen, st, hit = set(), [(b.id, i + 1)], None
            while st and hit is None:
                bid, pos = st.pop()
                if (bid, pos) in seen:
                    continue
                seen.add((bid, pos))
                blk = f.blocks[bid]
                stop = False
                for j in range(pos, len(blk.ev)):
                    x = blk.ev[j]
                    if charstore(x) or (x["k"] == "call" and x.get("callee") in TERMINATING_CALLS):
                        stop = True
                        break
                    if x["k"] == "return":
                        ex = x.get("expr")
                        t = strip_casts(ex["tree"]) if ex else None
                        if ex and "const" not in ex and not (isinstance(t, list) and t and t[0] in ("str", "call", "icall", "cond")):
                            hit = x
                        stop = True
                        break
                if stop:
                    continue
                for s_ in blk.succ:
                    if s_ is not None:
                        st.append((s_, 0))
            if hit is None:
                r.ok(f, key, "followed by a NUL store / terminating call on every path to a return", e["line"])
            else:
                r.bad(f, key, "after `%s = %s` (line %s) the function returns `%s` at line %s without storing a terminator: the text "
                              "continues with whatever the buffer held before" % (e["lhs"], e["rhs"]["text"], e["line"], hit["expr"]["text"], hit["line"]), e["line"])
    return r


def thorough(ctx):
    from .. import selftest
    import sys
    return selftest.run_mutants("C12", sys.modules[__name__])
