"""C19 Codecs are reentrant — R19.1 no write to static storage, R19.2 descriptors never written,
R19.3 no process-global libc state; over everything reachable from the codec roots."""
from ..engine import Rule, load_tables
from ..model import walk, strip_casts, is_var, tree_text, addr_roots
from . import common

EXPLANATION = (
    "Effect analysis over the call graph of skeletons/: roots are every function stored in a codec/print/free/"
    "compare/outmost_tag slot of any asn_TYPE_operation_t initializer, every function stored in a "
    "general_constraints field, and every external-linkage function of skeletons/ except the random-fill family and "
    "the named debug formatters. For every function reachable from the roots (op-slot and field-based resolution of "
    "indirect calls): R19.1 no assignment, libc writer or non-const address escape targets an object of static "
    "storage duration (directly or through a local alias of it); R19.2 no store goes through a pointer whose pointee "
    "is a type-descriptor structure unless the base object is a local or a fresh allocation; R19.3 no call to a libc "
    "routine that keeps process-global state. Writable statics that exist but are never written in scope are listed "
    "as passing instances with the reason they are benign.")
NOT_DECIDED = "data races inside the application's own callbacks; libc internals; generated code"
ASSUMPTIONS = ["indirect calls through application callbacks (asn_app_consume_bytes_f, asn_app_constraint_failed_f) "
               "are leaves: the application's code is outside the library",
               "configuration analysed: ASN_DEBUG/ASN_EMIT_DEBUG off (how the library is shipped and tested)"]

DESC_TYPES_PREFIX = ("asn_TYPE_descriptor", "struct asn_TYPE_descriptor", "asn_TYPE_operation", "struct asn_TYPE_operation",
                     "asn_TYPE_member", "struct asn_TYPE_member", "asn_TYPE_tag2member", "struct asn_TYPE_tag2member",
                     "asn_per_constraint", "struct asn_per_constraint", "asn_oer_constraint", "struct asn_oer_constraint",
                     "asn_encoding_constraints", "struct asn_encoding_constraints", "asn_INTEGER_enum_map",
                     "struct asn_INTEGER_enum_map", "asn_ioc_", "struct asn_ioc_")


def is_desc_type(t):
    t = t.replace("const ", "").strip()
    if t.endswith("*"):
        return False
    if t.startswith(DESC_TYPES_PREFIX):
        return True
    return t.endswith("_specifics_t") or t.endswith("_specifics_s") or "_specifics_s" in t


LIBC_WRITERS = {"memset": [0], "memcpy": [0], "memmove": [0], "strcpy": [0], "strncpy": [0], "strcat": [0],
                "strncat": [0], "sprintf": [0], "snprintf": [0], "vsnprintf": [0], "vsprintf": [0], "qsort": [0],
                "fread": [0], "read": [1], "gmtime_r": [1], "localtime_r": [1], "strtol": [1], "strtod": [1],
                "strtoul": [1], "strtoimax": [1], "strtoumax": [1]}


def roots(prog, tab):
    cg = prog.callgraph()
    r = common.slot_functions(prog, common.CODEC_SLOTS) | common.constraint_functions(prog)
    excl = {x["function"]: x["reason"] for x in tab["root_exclusions"]}
    excluded = []
    for f in prog.funcs.values():
        if f.static:
            continue
        if common.is_random_fill(prog, f):
            continue
        if f.name in excl:
            excluded.append((f, excl[f.name]))
            continue
        r.add(f.key)
    r = {k for k in r if not common.is_random_fill(prog, prog.funcs[k])}
    return r, excluded


def static_var_nodes(tree, statics):
    for n in walk(tree):
        if n[0] == "var" and n[2] in ("global", "static_local") and n[1] in statics:
            yield n


def run_config(prog, tab, cfgname):
    cg = prog.callgraph()
    rts, excluded = roots(prog, tab)
    rf = {k for k, fn in prog.funcs.items() if common.is_random_fill(prog, fn)}
    scope = cg.reachable(rts, stop=rf)
    statics = {}
    for g in prog.globals:
        if g.get("definition") or g.get("static_local"):
            statics[g["id"]] = g
    r1 = Rule("R19.1", "no write to an object of static storage duration in any function reachable from the codec, "
                       "print, free, compare and validation entry points", floor=10)
    r2 = Rule("R19.2", "type descriptors, op tables, member tables and constraint tables are never stored to "
                       "through a pointer (they are shared read-only between threads)", floor=3)
    r3 = Rule("R19.3", "no call to a libc routine with process-global state", floor=20)
    exc = {(x["rule"], x["function"], x["key"]): x["reason"] for x in tab["exceptions"]}
    banned = {x["name"]: x["reason"] for x in tab["banned_libc"]}

    def verdict(rule, f, key, detail, line):
        key = key.split("@")[0]
        k = (rule.id, f.name, key)
        if k in exc:
            rule.exc(f, key, exc[k], line)
        else:
            path = cg.path(sorted(rts), f.key)
            rule.bad(f, key, detail, line, witness={"call_path_from_root": path})

    written_statics = set()
    for key in sorted(scope):
        f = prog.funcs[key]
        alias_at = _alias_states(f, statics)
        n_before = (len(r1.insts), len(r2.insts))
        for b, i, e in f.events():
            alias = alias_at.get((b.id, i), {})
            if e["k"] == "assign":
                bk = e.get("base_kind")
                if bk in ("global", "static_local") and e["base_id"] in statics:
                    g = statics[e["base_id"]]
                    written_statics.add(e["base_id"])
                    verdict(r1, f, e["base_id"], "assignment `%s %s ...` writes %s object `%s` (%s)" % (
                        e["lhs"], e["op"], "function-local static" if g.get("static_local") else "file-scope",
                        g["name"], g["type"]), e["line"])
                elif bk == "local" and e.get("deref") and e["base_id"] in alias:
                    written_statics.add(alias[e["base_id"]])
                    verdict(r1, f, alias[e["base_id"]], "store `%s` through local `%s`, an alias of static object `%s`" % (
                        e["lhs"], e["base"], alias[e["base_id"]]), e["line"])
                if e.get("deref") and is_desc_type(e.get("pointee", "")):
                    # the written object is a descriptor structure reached through a pointer
                    if bk == "local" and _local_is_fresh(f, e["base_id"]):
                        r2.ok(f, "%s:%s" % (e["base"], e.get("field", "*")), "store into locally built table `%s` (%s)" % (e["base"], e["pointee"]), e["line"])
                    else:
                        verdict(r2, f, "%s:%s" % (e["base"], e.get("field", "*")),
                                "store `%s` writes a shared %s" % (e["lhs"], e["pointee"]), e["line"])
            elif e["k"] == "call":
                cal = e.get("callee")
                if cal in banned:
                    verdict(r3, f, cal, "call to %s: %s" % (cal, banned[cal]), e["line"])
                elif cal:
                    pass
                ptypes = e.get("param_types", [])
                for ai, a in enumerate(e["args"]):
                    tr = a.get("tree")
                    dest = cal in LIBC_WRITERS and ai in LIBC_WRITERS[cal]
                    # descriptor passed as destination of a libc writer
                    if dest and _points_to_desc(a):
                        verdict(r2, f, "%s:arg%d" % (cal, ai), "%s writes through `%s` (%s)" % (cal, a["text"], a["type"]), e["line"])
                    for sid in sorted(addr_roots(tr)):
                        if sid not in statics or statics[sid]["const"]:
                            continue
                        n = (None, sid)
                        pt = ptypes[ai] if ai < len(ptypes) else ("..." if e.get("variadic") else "")
                        if dest:
                            written_statics.add(n[1])
                            verdict(r1, f, n[1], "%s writes into static object `%s`" % (cal, n[1]), e["line"])
                        elif pt and "*" in pt and not _pointee_const(pt):
                            written_statics.add(n[1])
                            verdict(r1, f, n[1], "address of static object `%s` passed to %s as `%s` (writable)" % (
                                n[1], cal or e.get("indirect"), pt), e["line"])
                    if is_var(tr) and strip_casts(tr)[1] in alias and dest:
                        written_statics.add(alias[strip_casts(tr)[1]])
                        verdict(r1, f, alias[strip_casts(tr)[1]], "%s writes through alias of static `%s`" % (cal, alias[strip_casts(tr)[1]]), e["line"])
                if cal and cal not in banned:
                    r3.ok(f, cal, nontrivial=False) if cal in cg.external.get(f.key, ()) else None
        if (len(r1.insts), len(r2.insts)) == n_before:
            r1.ok(f, "*", "no store to static storage in %d blocks" % len(f.blocks), f.line)
    # every writable static object that exists: say why it is benign
    for sid, g in sorted(statics.items()):
        if g["const"] or g["base_type"].startswith(("asn_TYPE_", "struct asn_TYPE_")):
            continue
        infn = g.get("in_function")
        if sid in written_statics:
            continue
        where = "function %s" % infn if infn else "file scope"
        holder = prog.func(infn) if infn else None
        inscope = holder is not None and holder.key in scope
        r1.add(prog_rel(g["file"]), infn or "", "object:" + sid.split("@")[0], "pass",
               "writable static `%s` (%s, %s) is never written and never passed as a writable pointer in scope%s" % (
                   g["name"], g["type"], where, "" if inscope or not infn else " (its function is outside the scope)"),
               g["line"], nontrivial=True)
    for f, why in excluded:
        r1.add(f.relfile, f.name, "root-exclusion", "exception", why, f.line)
    for r in (r1, r2, r3):
        r.note("config=%s roots=%d scope=%d functions" % (cfgname, len(rts), len(scope)))
        for i in r.insts:
            i.config = cfgname
    return [r1, r2, r3]


def _alias_states(f, statics):
    """(block, event index) -> {local id: static id} for locals that may point into a writable static object at
    that point (forward may-analysis: p = buf, p = &obj.field, p = q, p = buf + n)."""
    from ..dataflow import forward, MapState, join_maps

    def targets(st, tree):
        out = set()
        for sid in addr_roots(tree):
            if sid in statics and not statics[sid]["const"]:
                out.add(sid)
        t = strip_casts(tree)
        while isinstance(t, list) and t and t[0] == "bin" and t[1] in ("+", "-"):
            t = strip_casts(t[2])
        if is_var(t) and t[2] in ("local", "param"):
            out |= st.get_set(t[1])
        return out

    def transfer(st, b, i, e):
        if e["k"] == "decl" and "init" in e:
            return st.with_(e["id"], targets(st, e["init"]["tree"]))
        if e["k"] == "assign" and e.get("op") == "=" and e.get("base_kind") in ("local", "param") and not e.get("deref") \
                and e.get("lhs") == e.get("base") and "rhs" in e:
            return st.with_(e["base_id"], targets(st, e["rhs"]["tree"]))
        return st
    res = {}

    def on_event(st, b, i, e):
        if st:
            res[(b.id, i)] = {k: sorted(v)[0] for k, v in st.items() if v}
    forward(f, MapState(), transfer, join_maps, on_event=on_event)
    return res


def prog_rel(p):
    from ..model import relpath
    return relpath(p)


def _addr_taken(tree, vid):
    for n in walk(tree):
        if n[0] == "un" and n[1] == "&":
            for m in walk(n[2]):
                if m[0] == "var" and m[1] == vid:
                    return True
    return False


def _pointee_const(ptype):
    # "const void *", "const char *restrict" -> const pointee
    t = ptype.strip()
    star = t.rfind("*")
    head = t[:star]
    return "const" in head.split("*")[-1] if "*" in head else "const" in head


def _points_to_desc(a):
    t = a.get("type", "")
    if not t.endswith("*"):
        return False
    return is_desc_type(t[:-1].strip())


def _local_is_fresh(f, vid):
    """every definition of the local is an allocation call, or the local is an array/struct object"""
    defs = []
    for b, i, e in f.events():
        if e["k"] == "decl" and e["id"] == vid:
            if e.get("is_array") or "*" not in e["type"]:
                return True
            if "init" in e:
                defs.append(e["init"])
        elif e["k"] == "assign" and e.get("base_id") == vid and not e.get("deref") and e.get("op") == "=":
            defs.append(e["rhs"])
    if not defs:
        return False
    for d in defs:
        if d.get("const") == 0:
            continue
        calls = set(d.get("calls", []))
        if calls & {"malloc", "calloc", "realloc", "alloca", "__builtin_alloca"}:
            continue
        return False
    return True


def run(ctx):
    tab = load_tables("c19")
    return run_config(ctx.prog("S"), tab, "default")


def thorough(ctx):
    tab = load_tables("c19")
    out = []
    for cfg in ("noper", "nooer", "none"):
        out += run_config(ctx.prog("S", cfg), tab, cfg)
    from .. import selftest
    import sys
    out += selftest.run_mutants("C19", sys.modules[__name__])
    return out
