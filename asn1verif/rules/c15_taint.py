"""R15.4b allocation sizes derived from a decoded length are bounded by the input present (A6 wire taint).

Sources: results and out-parameters of the length/tag fetch family, and the `left` budget of a decoder context or
expectation stack (it is assigned from such lengths).  Taint propagates through assignments inside a function
(flow-insensitive).  An allocation whose size expression is tainted must be dominated by a branch that compares a
tainted value of that derivation with the remaining input (the size_t parameter that follows the buffer parameter,
or an expression built from it).  Lengths produced by uper_get_length/uper_get_nslength are bounded by the producer
(64K per fragment) and are not sources."""
from ..model import walk, strip_casts, is_var, const_of, tree_text
from . import common

SOURCES = {"ber_fetch_length", "ber_fetch_tag", "oer_fetch_length", "oer_fetch_quantity", "ber_check_tags", "ber_skip_length",
           "oer_fetch_tag"}
ALLOC = {"malloc": 0, "calloc": None, "realloc": 1}


def input_size_params(f):
    out = set()
    for i, p in enumerate(f.params):
        t = p["type"].replace("const ", "")
        if i > 0 and t.strip() in ("size_t", "ssize_t", "unsigned long", "long") and "void *" in f.params[i - 1]["type"].replace("const ", "") + " ":
            out.add(p["id"])
        if i > 0 and t.strip() in ("size_t", "ssize_t") and ("char *" in f.params[i - 1]["type"] or "uint8_t *" in f.params[i - 1]["type"]):
            out.add(p["id"])
    return out


def tainted_vars(f):
    taint = set()
    # direct sources
    for b, i, e in f.calls():
        if e.get("callee") in SOURCES:
            ui = e.get("useinfo", {})
            if e.get("use") in ("assigned", "init"):
                v = ui.get("var") or (strip_casts(ui["lhs_tree"])[1] if ui.get("lhs_tree") and is_var(ui["lhs_tree"]) else None)
                if v:
                    taint.add(v)
            for a in e.get("args", []):
                t = strip_casts(a.get("tree"))
                if isinstance(t, list) and t and t[0] == "un" and t[1] == "&" and is_var(t[2]):
                    taint.add(strip_casts(t[2])[1])
    changed = True
    while changed:
        changed = False
        for b, i, e in f.events():
            tgt = tree = None
            if e["k"] == "assign" and e.get("base_id") and not e.get("deref") and e.get("lhs") == e.get("base") and "rhs" in e:
                tgt, tree = e["base_id"], e["rhs"]["tree"]
            elif e["k"] == "decl" and "init" in e:
                tgt, tree = e["id"], e["init"]["tree"]
            if tgt is None or tgt in taint:
                continue
            if is_tainted_tree(tree, taint):
                taint.add(tgt)
                changed = True
    return taint


def is_tainted_tree(tree, taint):
    for n in walk(tree):
        if n[0] == "var" and n[1] in taint:
            return True
        if n[0] == "member" and n[2] == "left" and ("asn_struct_ctx" in str(n[4]) or "_stack_el" in str(n[4])):
            return True
    return False


def alloc_rule(prog, rule, tab):
    cg = prog.callgraph()
    scope = cg.reachable(common.slot_functions(prog, common.DECODER_SLOTS))
    exc = {(x["function"], x["key"]): x["reason"] for x in tab.get("alloc_exceptions", [])}
    n = 0
    for k in sorted(scope):
        f = prog.funcs[k]
        sites = [(b, i, e) for b, i, e in f.calls() if e.get("callee") in ALLOC]
        if not sites:
            continue
        taint = tainted_vars(f)
        insz = input_size_params(f)
        dom = f.dominators()
        for b, i, e in sites:
            cal = e["callee"]
            args = e["args"]
            trees = [a.get("tree") for a in (args if cal == "calloc" else [args[ALLOC[cal]]] if len(args) > (ALLOC[cal] or 0) else [])]
            if not any(is_tainted_tree(t, taint) for t in trees):
                continue
            n += 1
            key = "%s(%s)" % (cal, " * ".join(tree_text(t) for t in trees))
            # the allocation must be reached only through the edge of a comparison on which the tainted length does not
            # exceed the remaining input
            ok = None
            for d in dom.get(b.id, ()):
                tb = f.blocks[d]
                if not tb.term or "cond" not in tb.term or len(tb.succ) < 2:
                    continue
                c = strip_casts(tb.term["cond"]["tree"])
                if not (isinstance(c, list) and c[0] == "bin" and c[1] in ("<", "<=", ">", ">=")):
                    continue
                l, r_ = c[2], c[3]
                lt, rt = is_tainted_tree(l, taint), is_tainted_tree(r_, taint)
                li = any(x[0] == "var" and x[1] in insz for x in walk(l))
                ri = any(x[0] == "var" and x[1] in insz for x in walk(r_))
                op = c[1]
                if lt and ri and not li:
                    pass
                elif rt and li and not ri:
                    op = {"<": ">", "<=": ">=", ">": "<", ">=": "<="}[op]
                else:
                    continue
                # now: tainted OP input.  The bounded edge is the one where tainted <= / < input
                bounded_idx = 1 if op in (">", ">=") else 0
                if f.edge_dominates(d, bounded_idx, b.id):
                    ok = tb.term.get("line")
            if ok is not None:
                rule.ok(f, key, "size derives from a decoded length that is compared with the remaining input at line %s" % ok, e["line"])
            elif (f.name, key) in exc:
                rule.exc(f, key, exc[(f.name, key)], e["line"])
            else:
                rule.bad(f, key, "allocation size `%s` derives from a length taken from the encoding and no dominating branch compares it with "
                                 "the input actually present: a few octets can make the decoder hold an arbitrary amount of memory" % key, e["line"])
    rule.note("%d allocations with a wire-derived size in %d decoder-reachable functions" % (n, len(scope)))
