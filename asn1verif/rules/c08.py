"""C08 constraint validation — R08.1 container walkers visit every member, R08.2 the fallback checker always exists,
R08.3 the error text is bounded and terminated."""
from ..engine import Rule, load_tables
from ..extract import AnalysisBroken
from ..model import walk, strip_casts, is_var, const_of, tree_text
from ..retabs import cond_polarity
from .. import guards

EXPLANATION = (
    "R08.1: in every container constraint walker (functions stored in a general_constraints field that loop over "
    "td->elements or a SET OF list: SEQUENCE_constraint, SET_constraint, SET_OF_constraint) a return inside the "
    "member loop may only return a value known to be a failure: a non-zero constant, or a variable on the non-zero "
    "edge of a test of it. Returning a member checker's result unconditionally ends the walk at the first member that "
    "passes. R08.2: every asn_TYPE_descriptor_t initializer in skeletons/ has a non-NULL general_constraints; every call "
    "through a member-level general_constraints (which the compiler emits as 0 for unconstrained members) is "
    "unreachable when that pointer is NULL (assume-NULL reachability). R08.3: in constraints.c the caller's buffer is "
    "written only by vsnprintf/memcpy with a length derived from the remaining length, and by stores at indices bounded "
    "by it; all writes are behind the zero-length early return; the length written back comes from the clamped values.")
NOT_DECIDED = ("the bodies of generated checkers (asn1c_emit_constraint_checking_code emits C text), the interval logic "
               "behind them, the permitted-alphabet tables")
ASSUMPTIONS = []


def walkers(prog):
    """constraint functions that iterate (contain a loop): the container walkers"""
    out = []
    from . import common
    for k in sorted(common.constraint_functions(prog)):
        f = prog.funcs[k]
        loops = f.loops()
        if not loops:
            continue
        # the loop must call a constraint function (slot general_constraints or a local bound to it)
        cg = prog.callgraph()
        calls_checker = False
        for b, i, e, tg in cg.sites[f.key]:
            if e.get("slot") == "general_constraints" or (e.get("fp_var") and "asn_constr_check_f" in e.get("fp_type", "")):
                calls_checker = True
        if calls_checker:
            out.append(f)
    return out


def r08_1(prog, rule, anchors):
    ws = walkers(prog)
    names = {f.name for f in ws}
    for a in anchors:
        if a not in names:
            raise AnalysisBroken("container walker %s not found among general_constraints functions with a member loop" % a)
    for f in ws:
        n = 0
        for b, i, e in f.returns():
            inloop = [c for c in e.get("ctx", []) if c["kind"] in ("for", "while", "do")]
            if not inloop:
                continue
            n += 1
            ex = e.get("expr")
            t = strip_casts(ex["tree"]) if ex else None
            key = "return@loop:%s" % (tree_text(t) if t else "void")
            c = ex.get("const") if ex else None
            if c is not None:
                if c != 0:
                    rule.ok(f, key, "constant failure value %d" % c, e["line"])
                else:
                    rule.bad(f, key, "returns success (0) from inside the member loop: remaining members are never checked", e["line"])
                continue
            if is_var(t):
                vid = t[1]
                ok = False
                for c in e.get("ctx", []):
                    if c["kind"] != "if":
                        continue
                    pol = cond_polarity(c["cond"]["tree"], lambda x: is_var(x, vid))
                    if pol and "nonzero" in pol["true" if c["branch"] == "then" else "false"]:
                        ok = True
                        break
                    if c["kind"] in ("for", "while", "do"):
                        break
                if ok:
                    rule.ok(f, key, "variable returned on the non-zero edge of its own test", e["line"])
                else:
                    rule.bad(f, key, "returns `%s` from inside the member loop without testing that it is a failure: "
                                     "the walk stops at the first member whatever its verdict" % tree_text(t), e["line"])
                continue
            rule.bad(f, key, "returns the member checker's result unconditionally from inside the member loop: the walk "
                             "ends at the first member, members after it are never validated", e["line"])
        if n == 0:
            rule.ok(f, "no-return-in-loop", "no return inside the member loop", f.line)
        # the walk visits every index: the variable that subscripts the member table advances by exactly one per iteration
        # (the decoders' `edx += elm->optional` fast-forward over a run of OPTIONALs has no place in a validator)
        idx_vars = set()
        for b, i, e in f.events("subscript"):
            if any(x[0] == "member" and x[2] in ("elements", "array") for x in walk(e["basex"]["tree"])):
                it = strip_casts(e["index"]["tree"])
                if is_var(it):
                    idx_vars.add(it[1])
        for v in sorted(idx_vars):
            steps = [(b, i, e) for b, i, e in f.events("assign") if e.get("base_id") == v and e.get("lhs") == e.get("base") and not e.get("deref")]
            jumps = [e for b, i, e in steps if e.get("op") in ("+=", "-=") or (e.get("op") == "=" and const_of(e["rhs"]["tree"]) is None)]
            key = "step:%s" % v.split("@")[0]
            if jumps:
                rule.bad(f, key, "the member index `%s` is changed by `%s %s %s` inside the walk: members are skipped without being "
                                 "validated" % (v.split("@")[0], jumps[0]["lhs"], jumps[0]["op"], jumps[0].get("rhs", {}).get("text", "")), jumps[0]["line"])
            else:
                rule.ok(f, key, "the member index only starts at a constant and steps by one", f.line)


def r08_2(prog, rule):
    for name, init in sorted(prog.descriptors.items()):
        ec = init.get("encoding_constraints", {})
        gc = ec.get("general_constraints") if isinstance(ec, dict) else None
        g = prog.global_by_name[name][0]
        from ..model import relpath
        if isinstance(gc, str) and gc.startswith("fn:"):
            rule.add(relpath(g["file"]), "", "descriptor:" + name, "pass", "general_constraints = %s" % gc[3:], g["line"], nontrivial=False)
        else:
            rule.add(relpath(g["file"]), "", "descriptor:" + name, "violation", "descriptor has no general_constraints function: "
                     "asn_check_constraints and every container walker call it unconditionally", g["line"])
    for f in prog.funcs.values():
        for b, i, e in f.calls():
            if e.get("slot") == "general_constraints":
                ct = e["callee_tree"]
                # member-level when the encoding_constraints record hangs off an asn_TYPE_member_t
                lvl = None
                for n in walk(ct):
                    if n[0] == "member" and n[2] == "encoding_constraints":
                        lvl = "member" if "asn_TYPE_member" in str(n[4]) else "type"
                        break
                key = "call:%s" % guards.canon(ct)
                if lvl == "member":
                    p = guards.null_reachable(f, ct, b)
                    if p is None:
                        rule.ok(f, key, "member-level checker called only where it is non-NULL", e["line"])
                    else:
                        rule.bad(f, key, "member-level general_constraints (0 for unconstrained members) can be NULL here",
                                 e["line"], witness={"path": guards.path_lines(f, p)})
                else:
                    rule.ok(f, key, "type-level checker (never NULL by the first half of this rule)", e["line"], nontrivial=False)
            elif e.get("fp_var") and "asn_constr_check_f" in e.get("fp_type", "") and e.get("fp_kind") == "local":
                vid = e["fp_var"]
                bad = None
                for db, di, de in f.events():
                    tree = None
                    if de["k"] == "assign" and de.get("base_id") == vid and de.get("lhs") == de.get("base"):
                        tree = de["rhs"]["tree"]
                    elif de["k"] == "decl" and de.get("id") == vid and "init" in de:
                        tree = de["init"]["tree"]
                    if tree is None:
                        continue
                    member_level = any(n[0] == "member" and n[2] == "encoding_constraints" and "asn_TYPE_member" in str(n[4]) for n in walk(tree))
                    if member_level:
                        p = guards.var_null_reachable(f, vid, db, di, b)
                        if p is not None:
                            bad = p
                key = "call:%s" % vid.split("@")[0]
                if bad:
                    rule.bad(f, key, "local checker pointer may still hold a NULL member-level general_constraints here", e["line"],
                             witness={"path": guards.path_lines(f, bad)})
                else:
                    rule.ok(f, key, "local checker pointer falls back to the type-level checker when the member-level one is NULL", e["line"])


def r08_3(prog, rule):
    f = prog.require("_asn_i_ctfailcb")
    api = prog.require("asn_check_constraints")
    # the buffer and its length live in the key structure
    def is_buf(t):
        t = strip_casts(t)
        return isinstance(t, list) and t[0] == "member" and t[2] == "errbuf"

    def is_len(t):
        t = strip_casts(t)
        return isinstance(t, list) and t[0] == "member" and t[2] == "errlen"
    # locals holding the remaining length: assigned from ->errlen (possibly decremented later)
    lenvars = set()
    for b, i, e in f.events("assign"):
        if e.get("base_kind") == "local" and not e.get("deref") and e.get("op") == "=" and is_len(e["rhs"]["tree"]):
            lenvars.add(e["base_id"])
    if not lenvars:
        raise AnalysisBroken("_asn_i_ctfailcb: no local holds the remaining buffer length")

    def is_lenvar(t):
        return is_var(t) and strip_casts(t)[1] in lenvars
    # O1: zero-length early return guards every write
    def subj(t):
        return is_lenvar(t)
    dead = set()
    for b in f.blocks.values():
        if b.term and "cond" in b.term:
            pol = cond_polarity(b.term["cond"]["tree"], subj)
            if pol:
                for idx, edge in ((0, "true"), (1, "false")):
                    if "nonpos" in pol[edge] or "zero" in pol[edge]:
                        # this edge is taken when the length is <= 0: under "length is positive" it is dead; we want the
                        # opposite: assume length <= 0 and prune edges that need it positive
                        pass
                    if ("pos" in pol[edge] or "nonzero" in pol[edge]) and idx < len(b.succ) and b.succ[idx] is not None:
                        dead.add((b.id, idx))
                    # `maxlen <= 0` false edge == positive
                    if any(isinstance(x, tuple) and x[0] in (">", ">=") and ((x[0] == ">" and x[1] >= 0) or (x[0] == ">=" and x[1] >= 1)) for x in pol[edge]) \
                            and idx < len(b.succ) and b.succ[idx] is not None:
                        dead.add((b.id, idx))
    writes = []
    for b, i, e in f.events():
        if e["k"] == "call" and e.get("callee") in ("vsnprintf", "snprintf", "memcpy", "memmove", "strcpy", "strncpy", "sprintf", "vsprintf", "strcat", "memset") \
                and e["args"] and is_buf(e["args"][0]["tree"]):
            writes.append((b, i, e, "call"))
        elif e["k"] == "assign" and e.get("lhs_tree"):
            lt = strip_casts(e["lhs_tree"])
            if isinstance(lt, list) and lt[0] == "sub" and is_buf(lt[1]):
                writes.append((b, i, e, "store"))
            elif isinstance(lt, list) and lt[0] == "un" and lt[1] == "*" and any(is_buf(n) for n in walk(lt[2])):
                writes.append((b, i, e, "store"))
    if len(writes) < 3:
        raise AnalysisBroken("_asn_i_ctfailcb: fewer buffer writes than confirmed by reading (%d)" % len(writes))
    for b, i, e, kind in writes:
        key = "%s:%s" % (kind, e.get("callee") or tree_text(e["lhs_tree"]))
        p = guards.reach_path(f, f.entry, b.id, dead)
        if p is not None:
            rule.bad(f, key + ":zero-length", "buffer write reachable when the caller's buffer length is 0", e["line"],
                     witness={"path": guards.path_lines(f, p)})
        else:
            rule.ok(f, key + ":zero-length", "write is behind the zero-length early return", e["line"])
        # O2/O3: bounded
        if kind == "call":
            cal = e["callee"]
            if cal in ("strcpy", "sprintf", "vsprintf", "strcat"):
                rule.bad(f, key + ":bounded", "unbounded writer %s into the caller's buffer" % cal, e["line"])
                continue
            sz = e["args"][1]["tree"] if cal in ("vsnprintf", "snprintf") else e["args"][2]["tree"]
            if is_lenvar(sz):
                rule.ok(f, key + ":bounded", "size argument is the remaining length", e["line"])
            elif is_len(sz) and _len_clamped_before(f, b, i, lenvars):
                rule.ok(f, key + ":bounded", "size argument is the clamped length", e["line"])
            else:
                rule.bad(f, key + ":bounded", "size argument `%s` is not the remaining buffer length" % tree_text(sz), e["line"])
        else:
            lt = strip_casts(e["lhs_tree"])
            idx = strip_casts(lt[2]) if lt[0] == "sub" else None
            ok = False
            why = ""
            if idx is not None:
                if isinstance(idx, list) and idx[0] == "bin" and idx[1] == "-" and is_lenvar(idx[2]) and (const_of(idx[3]) or 0) >= 1:
                    ok, why = True, "index is remaining length minus a positive constant"
                elif is_var(idx):
                    vid = idx[1]
                    # bounded by a dominating comparison with the remaining length
                    if _dominated_by_less_than(f, b, vid, lenvars):
                        ok, why = True, "index variable is on the `< remaining length` edge of a comparison"
                elif is_len(idx) and _len_clamped_before(f, b, i, lenvars):
                    ok, why = True, "index is the clamped length"
            if ok:
                rule.ok(f, key + ":bounded", why, e["line"])
            else:
                rule.bad(f, key + ":bounded", "store index `%s` is not bounded by the remaining buffer length" % (tree_text(idx) if idx else "?"), e["line"])
    # O4: every assignment to ->errlen comes from a bounded value
    for b, i, e in f.events("assign"):
        if e.get("field") == "errlen" and e.get("deref"):
            r = strip_casts(e["rhs"]["tree"])
            key = "errlen=" + tree_text(r)
            ok = False
            if isinstance(r, list) and r[0] == "bin" and r[1] == "-" and is_lenvar(r[2]) and (const_of(r[3]) or 0) >= 0:
                ok = True
            elif is_var(r) and _dominated_by_less_than(f, b, r[1], lenvars):
                ok = True
            elif isinstance(r, list) and r[0] == "cond" and _is_min_clamp(r, lenvars):
                ok = True
            if ok:
                rule.ok(f, key, "length written back is bounded by the length passed in", e["line"])
            else:
                rule.bad(f, key, "length written back (`%s`) is not derived from the clamped values" % tree_text(r), e["line"])
    # O5: asn_check_constraints passes the buffer and length through unchanged and writes back only arg.errlen
    for b, i, e in api.events("assign"):
        if e.get("deref") and e.get("base_kind") == "param" and "size_t" in e.get("base_type", ""):
            r = strip_casts(e["rhs"]["tree"])
            if isinstance(r, list) and r[0] == "member" and r[2] == "errlen":
                api_ok = True
                rule.ok(api, "*errlen", "written back from the callback's bounded length only", e["line"])
            else:
                rule.bad(api, "*errlen", "caller's length overwritten with `%s`" % tree_text(r), e["line"])
        if e.get("field") == "errlen" and not e.get("deref"):
            r = strip_casts(e["rhs"]["tree"])
            txt = tree_text(r)
            if isinstance(r, list) and r[0] == "cond" and const_of(r[3]) == 0:
                rule.ok(api, "arg.errlen", "initialised from the caller's length (0 when none given)", e["line"])
            else:
                rule.bad(api, "arg.errlen", "remaining length initialised with `%s`, not the caller's *errlen" % txt, e["line"])


def _is_min_clamp(r, lenvars):
    # (a < b) ? a : b  with b the remaining length
    c = strip_casts(r[1])
    a, b2 = strip_casts(r[2]), strip_casts(r[3])
    if isinstance(c, list) and c[0] == "bin" and c[1] in ("<", "<="):
        l, rr = strip_casts(c[2]), strip_casts(c[3])
        return tree_text(l) == tree_text(a) and tree_text(rr) == tree_text(b2) and is_var(b2) and b2[1] in lenvars
    return False


def _len_clamped_before(f, b, i, lenvars):
    """the last assignment to ->errlen before (b,i) on the straight-line chain is a min-clamp against the remaining length"""
    from ..retabs import _back_events
    for x in _back_events(f, b, i):
        if x["k"] == "assign" and x.get("field") == "errlen" and x.get("deref"):
            r = strip_casts(x["rhs"]["tree"])
            return isinstance(r, list) and r[0] == "cond" and _is_min_clamp(r, lenvars)
    return False


def _dominated_by_less_than(f, site, vid, lenvars):
    """site is reachable only through an edge on which vid < remaining length holds"""
    def is_lenvar(t):
        return is_var(t) and strip_casts(t)[1] in lenvars
    dead = set()
    found = False
    for b in f.blocks.values():
        if not b.term or "cond" not in b.term:
            continue
        t = strip_casts(b.term["cond"]["tree"])
        if isinstance(t, list) and t[0] == "bin" and t[1] in ("<", "<=", ">", ">="):
            l, r = strip_casts(t[2]), strip_casts(t[3])
            op = t[1]
            if is_lenvar(l) and is_var(r, vid):
                l, r = r, l
                op = {"<": ">", "<=": ">=", ">": "<", ">=": "<="}[op]
            if is_var(l, vid) and is_lenvar(r):
                # edge on which vid >= len holds must not lead to the site
                if op == ">=":
                    dead.add((b.id, 0)); found = True
                elif op == "<":
                    dead.add((b.id, 1)); found = True
    if not found:
        return False
    # with the "vid >= len" edges pruned the site must stay reachable, and with only them it must not be:
    # i.e. every path to the site avoids the >= edge  <=> site unreachable when we force taking... simpler: remove the
    # `<` edges and test that the site becomes unreachable
    lt_edges = set()
    for (bid, idx) in dead:
        lt_edges.add((bid, 1 - idx))
    return guards.reach_path(f, f.entry, site.id, lt_edges) is None


def r08_4(prog, rule):
    """A failing member verdict must reach the walker's return: assuming a member checker returned -1, no return of 0
    (and no return of a value that is no longer that verdict) is reachable."""
    from .. import assume
    from . import common
    for k in sorted(common.constraint_functions(prog)):
        f = prog.funcs[k]
        for b, i, e in f.calls():
            is_checker = e.get("slot") == "general_constraints" or (e.get("fp_var") and "asn_constr_check_f" in e.get("fp_type", "")) \
                or (e.get("callee") and prog.func(e["callee"]) is not None and common.has_constr_signature(prog.func(e["callee"])))
            if not is_checker:
                continue
            key = "verdict:%s" % (e.get("callee") or guards.canon(e["callee_tree"]))
            if e.get("use") == "returned":
                rule.ok(f, key, "verdict returned directly", e["line"], nontrivial=False)
                continue
            if e.get("use") in ("discarded", "voidcast"):
                rule.bad(f, key, "the checker's verdict is discarded", e["line"])
                continue
            subj = assume.subject_of_call(e, None)
            if subj is None:
                rule.bad(f, key, "the checker's verdict is not held anywhere (%s)" % e.get("use"), e["line"])
                continue

            def classify(rb, ri, re, env=None):
                ex = re.get("expr")
                if ex and "const" in ex:
                    return "fail" if ex["const"] != 0 else "success"
                t = strip_casts(ex["tree"]) if ex else None
                if is_var(t):
                    v = (env or {}).get((t[1], None))
                    if isinstance(v, int):
                        return "fail" if v != 0 else "success"
                return "unknown:value"
            hits = assume.explore(f, b, i, subj, -1, classify, origin_callid=e.get("id"), from_entry=False)
            bad = next((h for h in hits if h[0] not in ("fail", "abort")), None)
            if bad is None:
                rule.ok(f, key, "assuming the member check failed, only failing returns are reachable", e["line"])
            else:
                kind, rb, ri, re, path, lost = bad
                rule.bad(f, key, "assuming this member check returned -1, control reaches the return at line %s (%s)%s: an invalid member "
                                 "does not make the whole value invalid" % (re.get("line"), kind, " after the verdict was overwritten" if lost else ""),
                         e["line"], witness={"path": guards.path_lines(f, list(path))})


def run(ctx):
    prog = ctx.prog("S")
    tab = load_tables("c08")
    r1 = Rule("R08.1", "container constraint walkers visit every member: no early success return inside the member loop", floor=3)
    r2 = Rule("R08.2", "a constraint checker always exists: descriptors carry one, member-level NULL falls back to the type's", floor=30)
    r3 = Rule("R08.3", "the constraint error text is bounded by the caller's buffer and its reported length never exceeds it", floor=10)
    r08_1(prog, r1, tab["walkers"])
    r08_2(prog, r2)
    r08_3(prog, r3)
    r4 = Rule("R08.4", "a failing verdict of a member or delegated checker always reaches the return value of the walker", floor=5)
    r08_4(prog, r4)
    # R08.6: asn_check_constraints terminates: exact rule over the loops reachable from the constraint checkers
    from . import termination
    cg = prog.callgraph()
    roots = {f.key for f in prog.funcs.values() if f.name.endswith("_constraint") or f.name == "asn_check_constraints"}
    r6 = termination.rule_for(prog, "R08.6", "the constraint checkers", cg.reachable(roots), 8)
    # R08.8: the failure callback is variadic and unchecked by the compiler: every ASN__CTFAIL in the runtime passes what its
    # format consumes (the message `naming a type` is built from these arguments)
    from . import c10
    r8 = c10.r10_14(prog, rid="R08.8", floor=30, what="the runtime (constraint failure callbacks, debug and print helpers)")
    # R08.9: a member's checker is given the member's type descriptor (rule R04.12 over the constraint slots)
    from . import c04
    r9 = c04.r04_12(prog, "default", rid="R08.9", slots={"general_constraints"}, floor=6)
    return [r1, r2, r3, r4, r08_5(prog), r6, r08_7(ctx.prog("K")), r8, r9]


GENERIC_CHECKERS = ("asn_generic_no_constraint", "asn_generic_unknown_constraint")


def r08_7(progK):
    """A generated checker does not delegate to the slot it occupies.  Where the code generator emits the text
    `td->encoding_constraints.general_constraints(td, ...)` into the body of a checker function, `td` is whatever
    descriptor the checker was installed in.  For a member-local checker (its emitted name starts with a literal
    prefix, it goes into a member table and is called with the *member type's* descriptor) that is the type's own
    checker; for the public `<Type>_constraint` (the name is all format arguments, and asn_DEF_<Type> names it in that
    very slot) it is the function itself: asn_check_constraints never returns (stack exhaustion)."""
    r = Rule("R08.7", "the code generator never emits a type-level checker that calls through its own descriptor slot", floor=1)
    for f in sorted(progK.funcs.values(), key=lambda f: f.key):
        if "libasn1compiler/" not in f.relfile:
            continue
        heads = []        # (block id, index, literal) of emitted checker headers
        calls = []
        for b, i, e in f.calls():
            if e.get("callee") != "asn1c_compiled_output":
                continue
            for a in e.get("args", []):
                t = strip_casts(a.get("tree"))
                if not (isinstance(t, list) and t and t[0] == "str"):
                    continue
                if "_constraint" in t[1] and "(const asn_TYPE_descriptor_t *td" in t[1]:
                    heads.append((b, i, t[1]))
                if "general_constraints" in t[1] and "(td" in t[1] and "td->" in t[1]:
                    calls.append((b, i, e, t[1]))
        dom = f.dominators()
        n = 0
        for b, i, e, lit in calls:
            n += 1
            key = "emits-self-dispatch#%d" % n
            # the header emitted on the way here (the nearest dominating one)
            cands = [(hb, hi, hl) for hb, hi, hl in heads if (hb.id == b.id and hi < i) or (hb.id != b.id and hb.id in dom.get(b.id, ()))]
            if not cands:
                r.bad(f, key, "emits a call through td's own checker slot outside any emitted checker header", e["line"])
                continue
            hb, hi, hl = max(cands, key=lambda c: (len(dom.get(c[0].id, ())), c[1]))
            prefix = hl.split("%", 1)[0].split("_constraint", 1)[0]
            if prefix.strip():
                r.ok(f, key, "emitted into a member-local checker (`%s...`): td is the member type's descriptor, whose checker is another function" % prefix.strip(), e["line"])
            else:
                r.bad(f, key, "emitted into the body of the public `<Type>_constraint`, which asn_DEF_<Type> names in the very slot the call goes "
                              "through: for a constraint with nothing to check (INTEGER (MIN..-1 | 1..MAX), a BIT STRING value set) "
                              "asn_check_constraints recurses until the stack is exhausted", e["line"])
    return r


def r08_5(prog):
    """Restricted types check their built-in alphabet.  A skeleton descriptor that carries a built-in PER alphabet/size
    table (its `per_constraints` is set: the type has a restricted alphabet by definition), or whose type has a checker
    function of its own (`<Type>_constraint` exists in the program), must name that checker in general_constraints; one
    of the two generic accept-everything checkers there makes asn_check_constraints accept any octets for the type.
    Inside each own checker that walks the value octet by octet, the loop must be able to return -1 (a failing exit is
    reachable from the loop body)."""
    from ..model import relpath
    r = Rule("R08.5", "descriptors of restricted types name their own alphabet/format checker, and that checker can fail", floor=10)
    for name, init in sorted(prog.descriptors.items()):
        ec = init.get("encoding_constraints", {})
        if not isinstance(ec, dict):
            continue
        g = prog.global_by_name[name][0]
        tname = name[len("asn_DEF_"):]
        own = prog.func(tname + "_constraint")
        gc = ec.get("general_constraints")
        has_builtin = bool(ec.get("per_constraints")) or own is not None
        if not has_builtin:
            continue
        key = "descriptor:" + name
        if isinstance(gc, str) and gc[3:] in GENERIC_CHECKERS:
            r.add(relpath(g["file"]), name, key, "violation", "the type has a built-in restriction (%s) but its descriptor names %s: every value passes "
                  "validation" % ("own checker %s_constraint exists" % tname if own else "per_constraints table", gc[3:]), g["line"])
            continue
        r.add(relpath(g["file"]), name, key, "pass", "general_constraints = %s" % (gc[3:] if isinstance(gc, str) else gc), g["line"])
        chk = prog.func(gc[3:]) if isinstance(gc, str) and gc.startswith("fn:") else None
        if chk is None:
            continue
        loops_ = chk.loops()
        if not loops_:
            continue
        # some loop body must reach a negative return without leaving through the loop's normal exit only
        can_fail = False
        for h, body in loops_:
            for bid in body:
                for e in chk.blocks[bid].ev:
                    if e["k"] == "return" and isinstance((e.get("expr") or {}).get("const"), int) and e["expr"]["const"] < 0:
                        can_fail = True
                # a branch out of the loop into a block that returns -1 (through the failure callback macro)
                for s_ in chk.blocks[bid].succs():
                    if s_ not in body:
                        reach = chk.reachable_from([s_], stop=lambda x: x in body)
                        for x in reach:
                            for e in chk.blocks[x].ev:
                                if e["k"] == "return" and isinstance((e.get("expr") or {}).get("const"), int) and e["expr"]["const"] < 0:
                                    can_fail = True
        if can_fail:
            r.ok(chk, "loop-can-fail", "the octet loop of the checker has a failing exit", chk.line)
        else:
            r.bad(chk, "loop-can-fail", "the checker walks the value but no failing return is reachable from inside the loop: nothing is ever rejected", chk.line)
    return r


def thorough(ctx):
    from .. import selftest
    import sys
    return selftest.run_mutants("C08", sys.modules[__name__])
