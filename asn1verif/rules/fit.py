"""The (v)snprintf fit test, shared by C07 (runtime) and C10 (compiler).

C99 7.19.6.5: snprintf(buf, n, ...) returns the length L the complete text needs, not counting the terminating NUL, and the
text was written completely if and only if 0 <= L < n.  Two structural consequences, both decidable from the shape of the code:

 (a) a comparison of the returned length with the very expression that was passed as the size decides "it fitted" only in the
     form L < n (or "it did not" as L >= n); L <= n / L > n takes the truncated text of length n-1 for the complete one;
 (b) a retry that sets the size variable to exactly the returned length asks for L octets where L+1 are needed: the next
     attempt reports the same L, the fit test fails again, and the loop makes no progress.

Instances are found from the resolved call (callee name of a direct call to the libc function), the variable its result is
assigned to and the tree of the size argument; nothing is matched by position or text fragment.
"""
from ..engine import Rule
from ..model import strip_casts, is_var, tree_text, const_of
from .. import guards

FITTERS = ("snprintf", "vsnprintf")
FLIP = {"<": ">", ">": "<", "<=": ">=", ">=": "<=", "==": "==", "!=": "!="}


def _same(a, b):
    return tree_text(strip_casts(a)) == tree_text(strip_casts(b))


def _minus_one(t, size):
    """t is `size - 1`?"""
    t = strip_casts(t)
    return isinstance(t, list) and t and t[0] == "bin" and t[1] == "-" and _same(t[2], size) and const_of(t[3]) == 1


def snprintf_fit(prog, rid, floor, what):
    r = Rule(rid, "every comparison of the length returned by snprintf/vsnprintf with the size that was passed to it takes "
             "`length < size` (never `length <= size`) for \"the text fitted\", and no retry sets the size to exactly the "
             "returned length (C99 7.19.6.5: complete iff 0 <= length < size) in " + what, floor=floor)
    for f in sorted(prog.funcs.values(), key=lambda x: (x.relfile, x.line)):
        sites = []
        defs = []       # (block, event) of every definition of a plain local: assignments and initialised declarations
        for b, i, e in f.events():
            if e["k"] == "assign" and "rhs" in e and is_var(e.get("lhs_tree")) and not e.get("deref"):
                vid, src, op = strip_casts(e["lhs_tree"])[1], e["rhs"]["tree"], e.get("op")
            elif e["k"] == "decl" and e.get("init"):
                vid, src, op = e["id"], e["init"]["tree"], "="
            else:
                continue
            defs.append((b, e, vid))
            rt = strip_casts(src)
            if op == "=" and isinstance(rt, list) and rt and rt[0] == "call" and rt[2] in FITTERS and len(rt[3]) >= 2:
                sites.append((b, e, vid, rt[3][1], rt[2]))
        if not sites:
            continue
        for b, e, rv, size, callee in sites:
            if strip_casts(size)[0] == "int":
                continue    # literal size (the vsnprintf(NULL, 0, ...) sizing idiom): a comparison with that literal is a sign test
            # a comparison is attributed to this call when the call's result can reach it without passing through a block
            # that redefines the result variable
            stop = {ob.id for ob, oe, ov in defs if ov == rv and oe is not e and ob.id != b.id}
            key = "%s(%s)->%s" % (callee, tree_text(strip_casts(size)), rv.split("@")[0])
            ncmp = 0
            for cb in f.blocks.values() if isinstance(f.blocks, dict) else f.blocks:
                t = cb.term
                if not t or "cond" not in t:
                    continue
                c = strip_casts(t["cond"].get("tree"))
                if not (isinstance(c, list) and c and c[0] == "bin" and c[1] in FLIP):
                    continue
                op, a, bb = c[1], c[2], c[3]
                if is_var(bb, rv) and not is_var(a, rv):
                    op, a, bb = FLIP[op], bb, a
                if not is_var(a, rv):
                    continue
                if cb.id in stop or guards.reach_path(f, b.id, cb.id, set(), stop) is None:
                    continue
                ck = "%s:cmp@%s" % (key, tree_text(c))
                if _same(bb, size):
                    ncmp += 1
                    if op in ("<", ">="):
                        r.ok(f, ck, "exact fit test `length %s size`" % op, t.get("line"))
                    elif op in ("<=", ">"):
                        r.bad(f, ck, "`%s`: a returned length equal to the size `%s` is taken for a complete text, but "
                              "snprintf then wrote only size-1 characters and the NUL" % (tree_text(c), tree_text(strip_casts(size))),
                              t.get("line"))
                    else:
                        r.ok(f, ck, "equality test, not a fit decision", t.get("line"), nontrivial=False)
                elif _minus_one(bb, size):
                    ncmp += 1
                    if op in ("<=", ">"):
                        r.ok(f, ck, "exact fit test `length %s size - 1`" % op, t.get("line"))
                    elif op in ("<", ">="):
                        r.ok(f, ck, "conservative fit test against size - 1 (wastes one octet, never truncates)", t.get("line"))
            # (b) retry with size := length
            szv = strip_casts(size)
            if is_var(szv):
                for ab, ae, av in defs:
                    if av != szv[1] or ae["k"] != "assign":
                        continue
                    if ab.id == b.id:
                        cyc = any(guards.reach_path(f, x, b.id, set()) is not None for x in b.succs())
                    else:
                        cyc = guards.reach_path(f, b.id, ab.id, set()) is not None and \
                            guards.reach_path(f, ab.id, b.id, set()) is not None
                    if not cyc:
                        continue
                    rk = "%s:retry@%s %s %s" % (key, ae["lhs"], ae.get("op"), ae["rhs"]["text"])
                    if ae.get("op") == "=" and is_var(ae["rhs"]["tree"], rv):
                        r.bad(f, rk, "the retry size is exactly the returned length: the text needs length+1 octets, the next "
                              "attempt reports the same length and the loop never ends", ae["line"])
                    else:
                        r.ok(f, rk, "retry size is not the bare returned length", ae["line"])
            if ncmp == 0:
                r.ok(f, key, "returned length never compared with the size expression", e["line"], nontrivial=False)
    return r
