"""Loops make progress (R07.2 encoder side, R04.6 decoder side).

A natural loop is reported when every way out of it is either (a) a branch whose condition reads only local scalar
variables none of which is written (assigned, incremented, or has its address taken) anywhere in the loop, or (b) an
exit that can only reach failing returns.  Such a loop, once entered, never ends in success: it hangs or fails."""
from ..model import walk, strip_casts, is_var, tree_text


def cond_invariant(tree, written):
    """condition depends only on local scalars not written in the loop (and constants)"""
    for n in walk(tree):
        k = n[0]
        if k in ("call", "icall", "member", "sub", "stmtexpr", "va_arg", "big", "other"):
            return False
        if k == "un" and n[1] in ("*", "&", "++", "--", "++post", "--post"):
            return False
        if k == "bin" and n[1] in ("=", "+=", "-=", "|=", "&=", "*=", "/=", "<<=", ">>=", "^=", "%="):
            return False
        if k == "var":
            if n[2] not in ("local", "param"):
                return False
            if n[1] in written:
                return False
    return True


def written_in(f, body):
    w = set()
    for bid in body:
        for e in f.blocks[bid].ev:
            if e["k"] == "assign" and e.get("base_id") and not e.get("deref"):
                w.add(e["base_id"])
            elif e["k"] == "assign" and e.get("base_id") and e.get("deref") and e.get("base_kind") == "local" and "[" in e.get("base_type", ""):
                w.add(e["base_id"])
            elif e["k"] == "decl":
                w.add(e["id"])
            if e["k"] in ("call", "assign", "decl", "return"):
                trees = [a.get("tree") for a in e.get("args", [])] if e["k"] == "call" else \
                    [(e.get("rhs") or e.get("init") or e.get("expr") or {}).get("tree")]
                for t in trees:
                    for n in walk(t):
                        if n[0] == "un" and n[1] == "&":
                            for m in walk(n[2]):
                                if m[0] == "var":
                                    w.add(m[1])
    return w


def _written_on(f, blocks):
    return written_in(f, blocks)


def simple_cycles(f, header, body, limit=3000):
    """simple paths header -> ... -> header inside the loop body (as block id tuples, header first)"""
    out = []
    st = [(header, (header,))]
    n = 0
    while st:
        x, path = st.pop()
        n += 1
        if n > limit:
            return None
        for s in f.blocks[x].succ:
            if s is None or s not in body:
                continue
            if s == header:
                out.append(path)
            elif s not in path:
                st.append((s, path + (s,)))
    return out


def loop_rule(prog, rule, scope, classifier_for, exceptions):
    """Reports a loop that has a cycle C through its header such that every branch on C either has a condition that
    reads only local scalars never written on C, or diverts (off the cycle) only to failing returns.  Once the
    invariant conditions select C they select it for ever: the loop hangs or fails, it never ends in success."""
    n = 0
    for key in sorted(scope):
        f = prog.funcs[key]
        classify = None
        fail_only_cache = {}

        def fail_only(s):
            nonlocal classify
            if s in fail_only_cache:
                return fail_only_cache[s]
            if classify is None:
                classify = classifier_for(f)
            kinds = set()
            reach = f.reachable_from([s])
            for rb in reach:
                blk = f.blocks[rb]
                for i, e in enumerate(blk.ev):
                    if e["k"] == "return":
                        kinds.add(classify(blk, i, e))
            if f.ret_type == "void" and f.exit in reach:
                kinds.add("success")
            r = bool(kinds) and all(k == "fail" for k in kinds)
            fail_only_cache[s] = r
            return r
        for header, body in f.loops():
            n += 1
            hb = f.blocks[header]
            line = (hb.term or {}).get("line")
            if line is None:
                for bid in sorted(body, reverse=True):
                    t = f.blocks[bid].term
                    if t and t.get("line"):
                        line = t["line"]
                        break
            lk = "loop:%s" % (tree_text(hb.term["cond"]["tree"]) if hb.term and "cond" in hb.term else "header%d" % header)
            cycles = simple_cycles(f, header, body)
            if cycles is None:
                rule.ok(f, lk, "loop too large to enumerate cycles (not decided)", line, nontrivial=False)
                continue
            bad = None
            for cyc in cycles:
                cs = set(cyc)
                written = written_in(f, cs)
                closed = True
                nbranch = 0
                for pos, bid in enumerate(cyc):
                    b = f.blocks[bid]
                    nxt = cyc[(pos + 1) % len(cyc)]
                    succs = [s for s in b.succ if s is not None]
                    if len(set(succs)) < 2:
                        continue
                    nbranch += 1
                    inv = b.term and "cond" in b.term and cond_invariant(b.term["cond"]["tree"], written)
                    if inv:
                        continue
                    for s in set(succs):
                        if s == nxt:
                            continue
                        if s in body or not fail_only(s):
                            closed = False
                            break
                    if not closed:
                        break
                if closed and nbranch > 0:
                    bad = (cyc, written)
                    break
                if closed and nbranch == 0:
                    bad = (cyc, written)
                    break
            if bad is None:
                rule.ok(f, lk, "every cycle through the loop header has a branch that depends on state changed on that cycle", line)
            else:
                ek = (f.name, lk)
                if ek in exceptions:
                    rule.exc(f, lk, exceptions[ek], line)
                else:
                    cyc, written = bad
                    rule.bad(f, lk, "this loop has a cycle on which no branch condition can change (its variables are never "
                             "written on the cycle) except to leave through a failing return: once taken it never ends in success", line,
                             witness={"cycle_blocks": list(cyc), "cycle_lines": [x["line"] for x in __import__("asn1verif.guards", fromlist=["x"]).path_lines(f, list(cyc))]})
    return n
