"""A5 ownership analysis: path-sensitive walk from each function-local allocation site.

For an allocation whose result is held in local pointer variable(s) (an alias group: `bp = buf = MALLOC(..)`), every
path from the site is followed assuming the allocation succeeded.  The block is *settled* on a path when it is freed
(free, a releasing helper, a free_struct slot call), handed over (stored through a pointer / into a field / into an
out-parameter, returned, passed to a consuming function), or moved by a successful realloc into another holder.  A
return reached while a live holder still owns the block is a leak; a second free on a path is a double free.
Branches are decided by the non-NULL assumption on the holders, by comparisons of a holder with a local array
(`buf != scratch`), by constants assigned on the path (guard flags such as `used_malloc = 1`) and by facts from earlier
branches (correlated branches).  Assuming instead that the allocation failed, any dereference/index of a holder that
is reachable is a use of NULL (R14.2)."""
import collections

from .model import strip_casts, is_var, const_of, walk, tree_text, addr_roots
from .assume import eval_under, fact_query, _fact_of, _kill, mentions

ALLOC = {"malloc", "calloc", "strdup", "realloc"}
FREE = {"free"}
LIBC_DEST = {"memcpy": 0, "memset": 0, "memmove": 0, "snprintf": 0, "vsnprintf": 0, "strcpy": 0, "sprintf": 0}


def holders_of_site(f, b, i, e):
    """local variables that receive the result of allocation call e (alias group), plus whether the same expression
    also stores it somewhere non-local (escape at birth)."""
    cid = e["id"]
    group = set()
    escaped = False
    for j in range(i + 1, len(b.ev)):
        x = b.ev[j]
        tree = None
        if x["k"] == "assign" and "rhs" in x and x.get("op") == "=":
            tree = x["rhs"]["tree"]
        elif x["k"] == "decl" and "init" in x:
            tree = x["init"]["tree"]
        if tree is None or not any(n[0] in ("call", "icall") and n[1] == cid for n in walk(tree)):
            continue
        # the value assigned must be the call result itself (possibly cast / through a nested assignment)
        t = strip_casts(tree)
        while isinstance(t, list) and t and t[0] == "bin" and t[1] == "=":
            t = strip_casts(t[3])
        if not (isinstance(t, list) and t and t[0] in ("call", "icall") and t[1] == cid):
            continue
        if x["k"] == "decl":
            group.add(x["id"])
        elif x.get("base_kind") in ("local",) and not x.get("deref") and x.get("lhs") == x.get("base"):
            group.add(x["base_id"])
        elif x.get("base_kind") == "param" and not x.get("deref") and x.get("lhs") == x.get("base"):
            group.add(x["base_id"])
        else:
            escaped = True
    return group, escaped


def holder_id(t):
    """identifier of a local place that can hold the block: a local variable, or a field of a local aggregate"""
    t = strip_casts(t)
    if is_var(t):
        return t[1]
    if isinstance(t, list) and t and t[0] == "member" and not t[3] and is_var(t[1]):
        return strip_casts(t[1])[1] + "." + t[2]
    return None


def _frees_everything(e):
    """td->op->free_struct(td, ptr, ASFM_FREE_EVERYTHING): only that method releases the structure itself
    (ASN_STRUCT_FREE); _CONTENTS_ONLY and _RESET keep it."""
    if e.get("slot") != "free_struct":
        return False
    a = e.get("args", [])
    return len(a) >= 3 and a[2].get("const") == 0


class Summaries:
    """allocating helpers (return an owned block) and releasing helpers (free parameter i)"""

    def __init__(self, prog, tab):
        self.prog = prog
        self.alloc_funcs = set(tab.get("allocating_helpers_seed", []))
        self.release = collections.defaultdict(set)   # name -> param indexes freed
        self.consume = collections.defaultdict(set)   # name -> param indexes whose ownership is taken
        for x in tab.get("consuming_functions", []):
            self.consume[x["function"]].add(x["param"])
        self._releasing()

    def _releasing(self):
        prog = self.prog
        changed = True
        rounds = 0
        while changed and rounds < 4:
            changed = False
            rounds += 1
            for f in prog.funcs.values():
                for b, i, e in f.calls():
                    cal = e.get("callee")
                    idxs = []
                    if cal in FREE:
                        idxs = [0]
                    elif cal in self.release:
                        idxs = sorted(self.release[cal])
                    elif _frees_everything(e):
                        idxs = [1]
                    for ai in idxs:
                        if ai >= len(e["args"]):
                            continue
                        t = strip_casts(e["args"][ai]["tree"])
                        if is_var(t) and t[2] == "param":
                            pi = f.param_index(t[1])
                            if pi is not None and pi not in self.release[f.name]:
                                # the parameter itself must not be reassigned before (keep simple: accept)
                                self.release[f.name].add(pi)
                                changed = True

    def close_alloc_funcs(self):
        """allocating helpers: functions that return a locally allocated block (fixpoint over three rounds)"""
        prog = self.prog
        for _round in range(3):
            grew = False
            for f in prog.funcs.values():
                if not f.ret_type.rstrip().endswith("*") or f.name in self.alloc_funcs:
                    continue
                for b, i, e in f.calls():
                    if not self.is_alloc_call(e):
                        continue
                    if e.get("use") == "returned":
                        self.alloc_funcs.add(f.name)    # `return helper(...)`: hands the fresh block straight on
                        grew = True
                        break
                    group, esc = holders_of_site(f, b, i, e)
                    if not group or esc:
                        continue
                    # does some return hand back a holder that still owns the block (not linked anywhere else)?
                    finds, _, _ = walk_site(f, b, i, e, self, "owned")
                    if any(x["kind"] == "returned-owned" for x in finds):
                        self.alloc_funcs.add(f.name)
                        grew = True
                        break
            if not grew:
                break

    def is_alloc_call(self, e):
        cal = e.get("callee")
        if cal in ("malloc", "calloc", "strdup"):
            return True
        if cal == "realloc":
            return True
        return cal in self.alloc_funcs

    def releases(self, e):
        """argument indexes released by call event e"""
        cal = e.get("callee")
        if cal in FREE:
            return [0]
        if cal in self.release:
            return sorted(self.release[cal])
        if _frees_everything(e):
            return [1]
        return []

    def consumes(self, e):
        cal = e.get("callee")
        return sorted(self.consume.get(cal, ()))


def _group_pred(group):
    def p(t):
        h = holder_id(t) if isinstance(t, list) else None
        return h is not None and h in group
    return p


def _is_local_array_addr(t, f_arrays):
    t = strip_casts(t)   # strips decay too
    return is_var(t) and t[1] in f_arrays


def walk_site(f, b, i, e, summ, mode="owned", max_states=60000):
    """mode 'owned': allocation succeeded, look for leaks/double frees; mode 'null': allocation failed, look for uses.
    Returns list of findings dicts."""
    group0, escaped0 = holders_of_site(f, b, i, e)
    findings = []
    if not group0:
        return findings, group0, escaped0
    arrays = {x["id"] for _b, _i, x in f.events("decl") if x.get("is_array")}
    is_realloc = e.get("callee") == "realloc"
    realloc_src = None
    if is_realloc and e["args"]:
        t = strip_casts(e["args"][0]["tree"])
        if is_var(t):
            realloc_src = t[1]
    seen = set()
    dq = collections.deque()
    # state: block, pos, status, group, facts, env, path
    status0 = "escaped" if escaped0 else "owned"
    dq.append((b.id, i + 1, status0, frozenset(group0), (), frozenset(), (b.id,)))
    n = 0
    reported = set()
    while dq:
        bid, pos, status, group, facts, env, path = dq.popleft()
        n += 1
        if n > max_states:
            findings.append({"kind": "state-limit", "line": None, "path": path})
            break
        blk = f.blocks[bid]
        stop = False
        pending_null = None
        for j in range(pos, len(blk.ev)):
            x = blk.ev[j]
            k = x["k"]
            if mode == "null":
                # any dereference / index / libc write through a holder while it is NULL
                if k in ("deref", "subscript") and x.get("base_id") in group and x.get("deref"):
                    if (bid, j) not in reported:
                        reported.add((bid, j))
                        findings.append({"kind": "null-use", "line": x.get("line"), "what": x.get("lhs"), "path": path})
                    stop = True
                    break
                if k == "call" and x.get("callee") in LIBC_DEST:
                    a = x["args"][LIBC_DEST[x["callee"]]]["tree"] if x["args"] else None
                    if a is not None and is_var(a) and strip_casts(a)[1] in group:
                        # memcpy(p, .., 0) idioms are not distinguished: size is unknown here
                        if (bid, j) not in reported:
                            reported.add((bid, j))
                            findings.append({"kind": "null-use", "line": x.get("line"), "what": x.get("text"), "path": path})
                        stop = True
                        break
            if k == "return":
                ex = x.get("expr")
                if mode == "owned" and status == "owned":
                    ret_holder = ex is not None and any(n_[0] == "var" and (n_[1] in group or any(g.startswith(n_[1] + ".") for g in group)) for n_ in walk(ex["tree"]))
                    if ret_holder:
                        findings.append({"kind": "returned-owned", "line": x.get("line"), "path": path})
                    if not ret_holder and (bid, j) not in reported:
                        reported.add((bid, j))
                        findings.append({"kind": "leak", "line": x.get("line"), "holders": sorted(group), "path": path})
                stop = True
                break
            facts = _kill(facts, x)
            if k == "call" and (bid, j) == (b.id, i):
                # the allocation site is reached again (loop): a new block begins here
                a0 = strip_casts(x["args"][0]["tree"]) if (x.get("callee") == "realloc" and x["args"]) else None
                if a0 is not None and is_var(a0) and a0[1] in group and status == "owned":
                    # realloc of the block itself: consumed on success; on failure it is still owned (follow that)
                    pending_null = x["id"]
                    continue
                if status == "owned" and mode == "owned" and (bid, j) not in reported:
                    reported.add((bid, j))
                    findings.append({"kind": "lost", "line": x.get("line"), "holders": sorted(group), "path": path})
                stop = True
                break
            if k == "call":
                rel = summ.releases(x)
                hit = False
                for ai in rel:
                    if ai < len(x["args"]):
                        if holder_id(x["args"][ai]["tree"]) in group:
                            hit = True
                if hit:
                    if status == "released" and mode == "owned":
                        if (bid, j) not in reported:
                            reported.add((bid, j))
                            findings.append({"kind": "double-free", "line": x.get("line"), "path": path})
                        stop = True
                        break
                    status = "released"
                    continue
                for ai in summ.consumes(x):
                    if ai < len(x["args"]):
                        if holder_id(x["args"][ai]["tree"]) in group and status == "owned":
                            status = "escaped"
                if x.get("callee") == "realloc" and x["args"] and (blk.id, j) != (b.id, i):
                    t = strip_casts(x["args"][0]["tree"])
                    if is_var(t) and t[1] in group and status == "owned":
                        # success: the old block is consumed by realloc (settled, nothing to report on that branch);
                        # failure: realloc returned NULL and the old block is still owned -> follow that branch
                        pending_null = x["id"]
            elif k in ("assign", "decl"):
                # constant / call environment for guard flags
                if pending_null is not None and any(n_[0] == "call" and n_[1] == pending_null for n_ in walk((x.get("rhs") or x.get("init") or {}).get("tree"))):
                    # the variable receiving the failed realloc's result is NULL on this branch
                    vid = x["id"] if k == "decl" else (x.get("base_id") if (not x.get("deref") and x.get("lhs") == x.get("base")) else None)
                    if vid is not None:
                        if vid in group:
                            stop = True     # x = realloc(x, n): R14.5 reports it
                            break
                        envd = dict(env)
                        envd[(vid, None)] = 0
                        env = frozenset(envd.items())
                        continue
                if bid == b.id and any(n_[0] in ("call", "icall") and n_[1] == e["id"] for n_ in walk((x.get("rhs") or x.get("init") or {}).get("tree"))):
                    continue    # the assignment(s) that store the allocation result itself
                if k == "assign" and x.get("base_id") and not x.get("deref"):
                    c = const_of(x["rhs"]["tree"]) if (x.get("op") == "=" and "rhs" in x) else None
                    fld = x.get("field") if x.get("lhs") != x.get("base") else None
                    envd = dict(env)
                    if fld is None:
                        for kk in [kk for kk in envd if kk[0] == x["base_id"]]:
                            del envd[kk]
                    envd[(x["base_id"], fld)] = c if c is not None else "nonconst"
                    env = frozenset(envd.items())
                elif k == "decl" and "init" in x:
                    c = const_of(x["init"]["tree"])
                    envd = dict(env)
                    envd[(x["id"], None)] = c if c is not None else "nonconst"
                    env = frozenset(envd.items())
                rhs = (x.get("rhs") or x.get("init") or {}).get("tree")
                if rhs is None:
                    continue
                r = strip_casts(rhs)
                while isinstance(r, list) and r and r[0] == "bin" and r[1] == "=":
                    r = strip_casts(r[3])
                # value of a holder flows (possibly with pointer arithmetic: p + n is an interior pointer, not ownership)
                src_is_holder = holder_id(r) in group
                lhs_local = (k == "decl") or (x.get("base_kind") in ("local", "param") and not x.get("deref") and x.get("lhs") == x.get("base"))
                lhs_id = x["id"] if k == "decl" else x.get("base_id")
                if k == "assign" and not lhs_local and x.get("base_kind") == "local" and not x.get("deref") and x.get("lhs_tree") is not None:
                    hid = holder_id(x["lhs_tree"])
                    if hid is not None:
                        # a field of a local aggregate: a local place like any other
                        lhs_local, lhs_id = True, hid
                if src_is_holder:
                    if lhs_local:
                        if x.get("op", "=") == "=":
                            group = group | {lhs_id}
                    else:
                        # stored through a pointer / into a field / array element: handed over
                        if status == "owned":
                            status = "escaped"
                    continue
                if lhs_local and lhs_id in group and x.get("op", "=") == "=":
                    # holder overwritten with something else
                    newg = group - {lhs_id}
                    if not newg and status == "owned" and mode == "owned":
                        # is the new value the result of realloc(holder)? then the block moved into the same holder
                        rr = strip_casts(rhs)
                        if isinstance(rr, list) and rr and rr[0] == "call" and rr[2] == "realloc":
                            a0 = strip_casts(rr[3][0]) if rr[3] else None
                            if is_var(a0) and a0[1] == lhs_id:
                                stop = True   # x = realloc(x): reported by R14.5, new block analysed at its own site
                                break
                        if (bid, j) not in reported:
                            reported.add((bid, j))
                            findings.append({"kind": "lost", "line": x.get("line"), "holders": [lhs_id], "path": path})
                        stop = True
                        break
                    group = frozenset(newg)
                    if not group:
                        stop = True
                        break
        if stop:
            continue
        if status == "escaped" and mode == "owned":
            continue   # settled: nothing more to find on this path (double free needs 'released' to continue)
        # ---- successors
        alive = [idx for idx, s in enumerate(blk.succ) if s is not None]
        newfacts = {}
        if blk.term and "cond" in blk.term and len(blk.succ) >= 2 and blk.term["kind"] != "SwitchStmt":
            tree = blk.term["cond"]["tree"]
            gp = _group_pred(group)
            decided = None
            if mentions(tree, gp):
                tt = strip_casts(tree)
                # holder compared with a local array (heap-or-stack buffer idiom)
                neg = False
                while isinstance(tt, list) and tt and tt[0] == "un" and tt[1] == "!":
                    tt = strip_casts(tt[2])
                    neg = not neg
                if isinstance(tt, list) and tt and tt[0] == "bin" and tt[1] in ("==", "!="):
                    l, r = tt[2], tt[3]
                    if (gp(l) and _is_local_array_addr(r, arrays)) or (gp(r) and _is_local_array_addr(l, arrays)):
                        if mode == "owned":
                            decided = (tt[1] == "!=") != neg
                    elif mode == "owned" and (gp(l) or gp(r)):
                        other = r if gp(l) else l
                        if not gp(other) and fact_query(facts, ["bin", "==", other, ["int", 0]]) is True:
                            decided = (tt[1] == "!=") != neg     # a live block never equals a pointer known to be NULL
                if decided is None:
                    v = eval_under(tree, gp, 1 if mode == "owned" else 0)
                    if v is not None:
                        decided = bool(v)
            if decided is None:
                decided = fact_query(facts, tree)
            if decided is None and env:
                ev = eval_under(tree, None, None, dict(env))
                if ev is not None:
                    decided = bool(ev)
            if decided is not None:
                alive = [0] if decided else [1]
            for idx, truth in ((0, True), (1, False)):
                if idx in alive:
                    fo = _fact_of(tree, truth)
                    if fo is not None:
                        newfacts[idx] = fo
        for idx in alive:
            if idx >= len(blk.succ) or blk.succ[idx] is None:
                continue
            s = blk.succ[idx]
            nf = facts
            if idx in newfacts:
                fo = newfacts[idx]
                nf = tuple([y for y in facts if y != fo] + [fo])[-24:]
            key = (s, status, group, nf, env)
            if key in seen:
                continue
            seen.add(key)
            dq.append((s, 0, status, group, nf, env, path + (s,) if len(path) < 150 else path))
    return findings, group0, escaped0
