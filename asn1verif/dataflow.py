"""Generic forward may-dataflow over a function's CFG (worklist, states must be hashable-comparable)."""


def forward(f, init, transfer, join, refine=None, on_event=None, max_iter=20000):
    """init: state at entry. transfer(state, block, idx, event) -> state.
    refine(state, block, succ_index) -> state or None (edge infeasible).
    on_event(state_before, block, idx, event) is called in a final pass with the fixpoint states.
    Returns dict block id -> state at block entry."""
    IN = {f.entry: init}
    work = [f.entry]
    it = 0
    while work:
        it += 1
        if it > max_iter:
            raise RuntimeError("dataflow did not converge in %s" % f.name)
        bid = work.pop()
        b = f.blocks[bid]
        st = IN[bid]
        for i, e in enumerate(b.ev):
            st = transfer(st, b, i, e)
        for si, s in enumerate(b.succ):
            if s is None:
                continue
            ns = refine(st, b, si) if refine else st
            if ns is None:
                continue
            if s not in IN:
                IN[s] = ns
                work.append(s)
            else:
                j = join(IN[s], ns)
                if j != IN[s]:
                    IN[s] = j
                    work.append(s)
    if on_event:
        for bid, st in IN.items():
            b = f.blocks[bid]
            for i, e in enumerate(b.ev):
                on_event(st, b, i, e)
                st = transfer(st, b, i, e)
    return IN


class MapState(dict):
    """dict var -> frozenset; missing = empty set. Hash/eq by content."""

    def get_set(self, k):
        return self.get(k, frozenset())

    def with_(self, k, v):
        n = MapState(self)
        if v:
            n[k] = frozenset(v)
        else:
            n.pop(k, None)
        return n


def join_maps(a, b):
    if a == b:
        return a
    n = MapState(a)
    for k, v in b.items():
        n[k] = n.get(k, frozenset()) | v
    return n


def reaching_defs(f):
    """(block id, event index) -> {var id: frozenset of def keys} for local/param variables; def key = (block, idx).
    Also returns the table def key -> defining tree (rhs / init / ["call", id, name, []] for an out-parameter)."""
    from .model import strip_casts, is_var
    deftree = {}

    def defs_of(e, b, i):
        out = []
        if e["k"] == "decl":
            out.append((e["id"], e.get("init", {}).get("tree")))
        elif e["k"] == "assign" and e.get("base_id") and not e.get("deref") and e.get("lhs") == e.get("base") and e.get("base_kind") in ("local", "param"):
            out.append((e["base_id"], e.get("rhs", {}).get("tree") if e.get("op") == "=" else ["other", "compound"]))
        elif e["k"] == "call":
            for a in e.get("args", []):
                t = strip_casts(a.get("tree"))
                if isinstance(t, list) and t and t[0] == "un" and t[1] == "&" and is_var(t[2]):
                    out.append((strip_casts(t[2])[1], ["call", e.get("id", -1), e.get("callee") or "?", []]))
        return out

    def transfer(st, b, i, e):
        for vid, tree in defs_of(e, b, i):
            deftree[(b.id, i)] = tree
            st = st.with_(vid, {(b.id, i)})
        return st
    res = {}

    def on_event(st, b, i, e):
        res[(b.id, i)] = dict(st)
    forward(f, MapState(), transfer, join_maps, on_event=on_event)
    return res, deftree
