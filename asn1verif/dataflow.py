"""Generic forward may-dataflow over a function's CFG (worklist, states must be hashable-comparable)."""


def forward(f, init, transfer, join, refine=None, on_event=None, max_iter=20000):
    """init: state at entry. transfer(state, block, idx, event) -> state.
    refine(state, block, succ_index) -> state or None (edge infeasible).
    on_event(state_before, block, idx, event) is called in a final pass with the fixpoint states.
    Returns dict block id -> state at block entry."""
    IN = {f.entry: init}
    work = [f.entry]
    it = 0
    while work:
        it += 1
        if it > max_iter:
            raise RuntimeError("dataflow did not converge in %s" % f.name)
        bid = work.pop()
        b = f.blocks[bid]
        st = IN[bid]
        for i, e in enumerate(b.ev):
            st = transfer(st, b, i, e)
        for si, s in enumerate(b.succ):
            if s is None:
                continue
            ns = refine(st, b, si) if refine else st
            if ns is None:
                continue
            if s not in IN:
                IN[s] = ns
                work.append(s)
            else:
                j = join(IN[s], ns)
                if j != IN[s]:
                    IN[s] = j
                    work.append(s)
    if on_event:
        for bid, st in IN.items():
            b = f.blocks[bid]
            for i, e in enumerate(b.ev):
                on_event(st, b, i, e)
                st = transfer(st, b, i, e)
    return IN


class MapState(dict):
    """dict var -> frozenset; missing = empty set. Hash/eq by content."""

    def get_set(self, k):
        return self.get(k, frozenset())

    def with_(self, k, v):
        n = MapState(self)
        if v:
            n[k] = frozenset(v)
        else:
            n.pop(k, None)
        return n


def join_maps(a, b):
    if a == b:
        return a
    n = MapState(a)
    for k, v in b.items():
        n[k] = n.get(k, frozenset()) | v
    return n
