"""Run the factdump extractor over /repo's working tree and load the per-TU facts.

The compile commands are owned by the checker (the repository is autotools-built in tree with
`-DHAVE_CONFIG_H -I. -I$(top) -std=gnu99`); asserts are always kept (`-UNDEBUG`).
A TU that does not parse makes the whole check exit 2 (analysis broken).
"""
import glob
import json
import os
import shutil
import subprocess
import sys
import tempfile
from concurrent.futures import ThreadPoolExecutor

VERIF = os.path.dirname(os.path.dirname(os.path.abspath(__file__)))
REPO = os.environ.get("ASN1VERIF_REPO", "/repo")
FACTDUMP = os.path.join(VERIF, "build", "factdump")


class AnalysisBroken(Exception):
    """Raised when the analysis itself cannot be trusted (exit status 2)."""


def set_repo(path):
    global REPO
    REPO = path


def get_repo():
    return REPO


def _config_h_dir():
    if os.path.exists(os.path.join(REPO, "config.h")):
        return REPO, "config.h from the analysed tree (produced by ./configure)"
    return os.path.join(VERIF, "support"), "config.h from /verif/support (no /repo/config.h present)"


S_CONFIGS = {
    "default": [],
    "noper": ["-DASN_DISABLE_PER_SUPPORT"],
    "nooer": ["-DASN_DISABLE_OER_SUPPORT"],
    "none": ["-DASN_DISABLE_PER_SUPPORT", "-DASN_DISABLE_OER_SUPPORT"],
}


def unit_files(unit):
    r = REPO
    if unit == "S":
        fs = sorted(glob.glob(r + "/skeletons/*.c"))
        return [f for f in fs if os.path.basename(f) != "converter-example.c"]
    if unit == "K":
        fs = []
        for d in ("libasn1common", "libasn1parser", "libasn1fix", "libasn1print", "libasn1compiler", "asn1c"):
            fs += sorted(glob.glob("%s/%s/*.c" % (r, d)))
        return [f for f in fs if not os.path.basename(f).startswith("check_")]
    if unit == "T":
        fs = sorted(glob.glob(r + "/asn1-tools/unber/*.c")) + sorted(glob.glob(r + "/asn1-tools/enber/*.c"))
        return [f for f in fs if not os.path.basename(f).startswith("check_")]
    raise ValueError(unit)


def unit_flags(unit, config="default", extra=()):
    r = REPO
    cfgdir, _ = _config_h_dir()
    if unit == "S":
        return ["-I%s/skeletons" % r, "-I" + cfgdir, "-std=gnu99", "-UNDEBUG", "-w"] + S_CONFIGS[config] + list(extra)
    inc = ["-I%s/%s" % (r, d) for d in
           ("libasn1common", "libasn1parser", "libasn1fix", "libasn1print", "libasn1compiler", "skeletons", "asn1c")]
    return ["-DHAVE_CONFIG_H", '-DDATADIR="/usr/local/share/asn1c"', "-I" + cfgdir, "-I" + r] + inc + \
           ["-std=gnu99", "-UNDEBUG", "-w"] + list(extra)


def _run_group(args):
    files, flags, outdir = args
    cmd = [FACTDUMP, "-o", outdir] + files + ["--"] + flags
    p = subprocess.run(cmd, stdout=subprocess.PIPE, stderr=subprocess.PIPE, text=True)
    return p.returncode, p.stderr


def extract(unit, config="default", extra=(), files=None, outdir=None, jobs=16):
    """Returns (list of TU fact dicts, info dict). Raises AnalysisBroken on a parse failure."""
    if not os.path.exists(FACTDUMP):
        raise AnalysisBroken("extractor not built: run ./setup.sh (MANIFEST.setup_cmd)")
    files = files if files is not None else unit_files(unit)
    if unit == "S" and config in ("nooer", "none"):
        # the CODEC-OER files are not shipped (and do not compile) when OER support is disabled
        files = [f for f in files if not (os.path.basename(f).startswith("oer_") or os.path.basename(f).endswith("_oer.c"))]
    if not files:
        raise AnalysisBroken("no source files for unit %s" % unit)
    own = outdir is None
    if own:
        outdir = tempfile.mkdtemp(prefix="asn1verif-")
    try:
        flags = unit_flags(unit, config, extra)
        n = max(1, min(jobs, len(files)))
        groups = [files[i::n] for i in range(n)]
        with ThreadPoolExecutor(max_workers=n) as ex:
            results = list(ex.map(_run_group, [(g, flags, outdir) for g in groups]))
        tus = []
        missing = []
        for f in files:
            p = os.path.join(outdir, f.replace("/", "_") + ".json")
            if not os.path.exists(p):
                missing.append(f)
                continue
            with open(p, "rb") as fh:
                tus.append(json.loads(fh.read().decode("utf-8", "replace")))
        if missing:
            err = "\n".join(e for _, e in results if e)
            raise AnalysisBroken("translation units failed to parse: %s\n%s" % (", ".join(missing), err[-3000:]))
        info = {"unit": unit, "config": config, "files": len(files), "flags": " ".join(flags),
                "config_h": _config_h_dir()[1]}
        return tus, info
    finally:
        if own:
            shutil.rmtree(outdir, ignore_errors=True)
