/* config.h.  Generated from config.h.in by configure.  */
/* config.h.in.  Generated from configure.ac by autoheader.  */

/* Define if building universal (internal helper macro) */
/* #undef AC_APPLE_UNIVERSAL_BUILD */

/* Have 128-bit integer */
#define HAVE_128_BIT_INT 1

/* Define to 1 if you have the declaration of `strcasecmp', and to 0 if you
   don't. */
#define HAVE_DECL_STRCASECMP 1

/* Define to 1 if you have the declaration of `vasprintf', and to 0 if you
   don't. */
#define HAVE_DECL_VASPRINTF 0

/* Define to 1 if you have the <dlfcn.h> header file. */
#define HAVE_DLFCN_H 1

/* Define to 1 if you have the <inttypes.h> header file. */
#define HAVE_INTTYPES_H 1

/* Define to 1 if you have the `mergesort' function. */
/* #undef HAVE_MERGESORT */

/* Define to 1 if you have the `mkstemps' function. */
#define HAVE_MKSTEMPS 1

/* Define to 1 if you have the <stdint.h> header file. */
#define HAVE_STDINT_H 1

/* Define to 1 if you have the <stdio.h> header file. */
#define HAVE_STDIO_H 1

/* Define to 1 if you have the <stdlib.h> header file. */
#define HAVE_STDLIB_H 1

/* Define to 1 if you have the <strings.h> header file. */
#define HAVE_STRINGS_H 1

/* Define to 1 if you have the <string.h> header file. */
#define HAVE_STRING_H 1

/* Define to 1 if you have the `strtoimax' function. */
#define HAVE_STRTOIMAX 1

/* Define to 1 if you have the `strtoll' function. */
#define HAVE_STRTOLL 1

/* Define to 1 if you have the symlink function. */
#define HAVE_SYMLINK 1

/* Define to 1 if you have the <sys/param.h> header file. */
#define HAVE_SYS_PARAM_H 1

/* Define to 1 if you have the <sys/stat.h> header file. */
#define HAVE_SYS_STAT_H 1

/* Define to 1 if you have the <sys/types.h> header file. */
#define HAVE_SYS_TYPES_H 1

/* Define to 1 if you have the `timegm' function. */
#define HAVE_TIMEGM 1

/* Define to 1 if you have the <unistd.h> header file. */
#define HAVE_UNISTD_H 1

/* Define to the sub-directory where libtool stores uninstalled libraries. */
#define LT_OBJDIR ".libs/"

/* Name of package */
#define PACKAGE "asn1c"

/* Define to the address where bug reports for this package should be sent. */
#define PACKAGE_BUGREPORT "vlm@lionet.info"

/* Define to the full name of this package. */
#define PACKAGE_NAME "asn1c"

/* Define to the full name and version of this package. */
#define PACKAGE_STRING "asn1c 0.9.29"

/* Define to the one symbol short name of this package. */
#define PACKAGE_TARNAME "asn1c"

/* Define to the home page for this package. */
#define PACKAGE_URL ""

/* Define to the version of this package. */
#define PACKAGE_VERSION "0.9.29"

/* The size of `void *', as computed by sizeof. */
#define SIZEOF_VOID_P 8

/* Define to 1 if all of the C90 standard headers exist (not just the ones
   required in a freestanding environment). This macro is provided for
   backward compatibility; new code need not use it. */
#define STDC_HEADERS 1

/* Define to 1 if your <sys/time.h> declares `struct tm'. */
/* #undef TM_IN_SYS_TIME */

/* Version number of package */
#define VERSION "0.9.29"

/* Define WORDS_BIGENDIAN to 1 if your processor stores words with the most
   significant byte first (like Motorola and SPARC, unlike Intel). */
#if defined AC_APPLE_UNIVERSAL_BUILD
# if defined __BIG_ENDIAN__
#  define WORDS_BIGENDIAN 1
# endif
#else
# ifndef WORDS_BIGENDIAN
/* #  undef WORDS_BIGENDIAN */
# endif
#endif

/* Define to 1 if `lex' declares `yytext' as a `char *' by default, not a
   `char[]'. */
#define YYTEXT_POINTER 1

/* Define to `int64_t' if <sys/types.h> does not define. */
/* #undef intmax_t */

/* Define to `long int' if <sys/types.h> does not define. */
/* #undef off_t */

/* Define to `unsigned int' if <sys/types.h> does not define. */
/* #undef size_t */
