#!/bin/sh
# Runs the repository's pinned test suite (82 tests) on a scratch copy of /repo's working tree with no verification
# guard defined (no hook code exists; -DVLM_ASN1C_VERIF is never passed). Prints PASS count and any baseline test missing.
set -e
W=$(mktemp -d /tmp/asn1c-suite-XXXXXX)
trap 'rm -rf "$W"' EXIT
cp -a "${SRC:-/repo}" "$W/repo"
cd "$W/repo"
# The in-tree Makefiles carry absolute paths of /repo (abs_top_srcdir): point them at the copy, drop stale per-test
# build directories (they symlink to /repo/skeletons), rebuild the copy and test the copy's own binaries and skeletons.
rm -rf tests/tests-c-compiler/test-check* tests/tests-randomized/.tmp.*
make -j16 abs_top_srcdir="$W/repo" abs_top_builddir="$W/repo" > "$W/build.log" 2>&1 || { tail -20 "$W/build.log"; echo "BUILD FAILED"; exit 1; }
make check -j16 -k abs_top_srcdir="$W/repo" abs_top_builddir="$W/repo" 'abs_builddir=$(CURDIR)' > "$W/log" 2>&1 || true
python3 - "$W/log" <<'P'
import json,re,sys
log=open(sys.argv[1],errors='replace').read()
passed=set(re.findall(r'^PASS: (\S+)',log,re.M))
failed=set(re.findall(r'^(?:FAIL|ERROR): (\S+)',log,re.M))
base=json.load(open('/root/.vp/BASELINE.json'))['stable_pass']
missing=[b for b in base if not any(b.endswith(p) for p in passed)]
print('PASS %d FAIL %s' % (len(passed), sorted(failed)))
print('baseline tests not passing: %d %s' % (len(missing), missing[:6]))
sys.exit(1 if missing else 0)
P
