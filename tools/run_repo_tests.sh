#!/bin/sh
# Runs the repository's pinned test suite (82 tests) on a scratch copy of /repo's working tree with no verification
# guard defined (no hook code exists; -DVLM_ASN1C_VERIF is never passed). Prints PASS count and any baseline test missing.
set -e
W=$(mktemp -d /tmp/asn1c-suite-XXXXXX)
trap 'rm -rf "$W"' EXIT
cp -a /repo "$W/repo"
cd "$W/repo"
make check -j16 -k > "$W/log" 2>&1 || true
python3 - "$W/log" <<'P'
import json,re,sys
log=open(sys.argv[1],errors='replace').read()
passed=set(re.findall(r'^PASS: (\S+)',log,re.M))
failed=set(re.findall(r'^(?:FAIL|ERROR): (\S+)',log,re.M))
base=json.load(open('/root/.vp/BASELINE.json'))['stable_pass']
missing=[b for b in base if not any(b.endswith(p) for p in passed)]
print('PASS %d FAIL %s' % (len(passed), sorted(failed)))
print('baseline tests not passing:', missing)
sys.exit(1 if missing else 0)
P
