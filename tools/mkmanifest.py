#!/usr/bin/env python3
"""Regenerates /verif/MANIFEST.json from the table below (kept valid at all times)."""
import json, os
V = os.path.dirname(os.path.dirname(os.path.abspath(__file__)))
NOTE = ("decides the named structural clauses (necessary conditions of the property) on every path of every analysed "
        "function; does not decide the behaviour as a whole. Trusted base: clang 14 front end + clang::CFG, the compile "
        "commands in asn1verif/extract.py, the idiom/exception tables in /verif/tables (one reason per row). Generated "
        "code is not analysed.")
CHECKS = {
 "C19": ("effect analysis over the resolved call graph: no write to static storage, no store through descriptor "
         "pointers, no process-global libc calls, in everything reachable from the codec/print/free/validate entry points",
         "call-graph reachability + per-function effect/alias dataflow over clang CFG facts (custom libTooling extractor)",
         "4 C19"),
}
NA = {
 "C01": "round-trip equality relates two interpreters over all values and run-time-generated tables; its only structural prerequisites are decided under C04/C05/C07",
 "C02": "byte-exact conformance is the numeric content of the length/tag/number serialisers; nothing of it is visible in code shape",
 "C03": "acceptance of every valid alternative encoding is language inclusion over the decoder automata; restart/error mapping is decided under C05",
 "C09": "effective-constraint computation is interval arithmetic over all constraint trees; no structural clause",
 "C17": "OID arc and calendar conversions are numeric; their global-state aspect is decided under C19",
}
PENDING = {}
def main():
    import importlib.util
    spec = importlib.util.spec_from_file_location("claims", os.path.join(V, "tools", "claims.py"))
    if os.path.exists(os.path.join(V, "tools", "claims.py")):
        m = importlib.util.module_from_spec(spec); spec.loader.exec_module(m)
        checks, na = m.CHECKS, m.NA
    else:
        checks, na = CHECKS, dict(NA)
    allp = [json.loads(l)["id"] for l in open(os.path.join(V, "properties.jsonl"))]
    out = {"version": 1, "setup_cmd": "./setup.sh",
           "hooks": {"guard": "VLM_ASN1C_VERIF", "enable": "none needed: the checks read /repo's sources with the extractor; no hook code exists in /repo",
                     "baseline_off_cmd": "tools/run_repo_tests.sh", "source_commits": [], "add_only": True},
           "engines": [{"name": "asn1verif", "path": "asn1verif/", "serves_properties": sorted(checks),
                        "kind_free_text": "static analysis: libTooling fact extractor (tools/factdump) + Python rules over CFG, call graph, dataflow and initializer tables"}],
           "checks": [], "not_applicable": [], "notes": "static-analysis family only; see DESIGN.md"}
    for pid in allp:
        if pid in checks:
            text, tech, ref = checks[pid]
            out["checks"].append({"property_id": pid, "quick_cmd": "./check %s --tier quick" % pid,
                                  "thorough_cmd": "./check %s --tier thorough" % pid,
                                  "evidence_file": "evidence/%s.json" % pid,
                                  "replay_cmd_template": "./check %s --explain {path}" % pid, "engine": "asn1verif",
                                  "level_claimed": {"category": "other", "text": text, "design_ref": "DESIGN.md section " + ref},
                                  "level_note": NOTE, "technique": tech})
        else:
            out["not_applicable"].append({"property_id": pid, "reason": na.get(pid) or "check not built yet (static clauses designed in DESIGN.md section 4; claimed only once its rules run clean and catch a mutant)"})
    json.dump(out, open(os.path.join(V, "MANIFEST.json"), "w"), indent=1)
    print("MANIFEST: %d checks, %d not applicable" % (len(out["checks"]), len(out["not_applicable"])))
main()
