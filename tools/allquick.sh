#!/bin/sh
# run every claimed quick check (in parallel) and print one line per property
cd /verif
for c in C04 C05 C06 C07 C08 C10 C11 C12 C13 C14 C15 C16 C18 C19 C20; do
  ( ./check $c > /tmp/w/q.$c.log 2>&1; echo "$c rc=$? $(tail -1 /tmp/w/q.$c.log | cut -c1-120)" ) &
done
wait
