// factdump: per-translation-unit fact extractor for the asn1c static checks.
//
// For every function definition it writes the clang CFG (blocks, ordered successors, labels,
// terminators with their condition) and, per block, an ordered list of events (call, assign,
// decl, return, deref, subscript, assert).  Every expression is summarised both as canonical
// text and as a small tree over resolved declarations, so that the Python rules match on
// program structure (callee identity, declaration identity, field names, constants) and never
// on source text or positions.  Globals are written with their initializer trees keyed by field
// name (this is how the op tables and descriptors are read).  Enum definitions are written too.
#include "clang/AST/ASTConsumer.h"
#include "clang/AST/ParentMapContext.h"
#include "clang/AST/RecursiveASTVisitor.h"
#include "clang/Analysis/CFG.h"
#include "clang/Frontend/CompilerInstance.h"
#include "clang/Frontend/FrontendAction.h"
#include "clang/Lex/Lexer.h"
#include "clang/Tooling/CommonOptionsParser.h"
#include "clang/Tooling/Tooling.h"
#include "llvm/Support/CommandLine.h"
#include "llvm/Support/JSON.h"
#include <map>
#include <set>
using namespace clang;
using namespace clang::tooling;
namespace json = llvm::json;
static llvm::cl::OptionCategory Cat("factdump");
static llvm::cl::opt<std::string> OutDir("o", llvm::cl::desc("output dir"), llvm::cl::init("."),
                                         llvm::cl::cat(Cat));

static int64_t safeInt(const llvm::APSInt &v) {
  if (v.isUnsigned()) { if (v.getActiveBits() <= 64) return (int64_t)v.getZExtValue(); /* wraps: (size_t)-1 is -1 */ return INT64_MAX; }
  if (v.getMinSignedBits() <= 64) return v.getExtValue();
  return v.isNegative() ? INT64_MIN : INT64_MAX;
}
static std::string san(StringRef in) {
  std::string o; char buf[8];
  for (unsigned char c : in) { if (c >= 0x20 && c < 0x7f) o.push_back((char)c); else if (c == '\n') o += "\n"; else if (c == '\t') o += "\t"; else { snprintf(buf, sizeof buf, "\\x%02x", c); o += buf; } }
  return o;
}
static const Expr *strip(const Expr *E) { return E ? E->IgnoreParenCasts() : E; }

struct Ctx {
  ASTContext &C;
  SourceManager &SM;
  PrintingPolicy PP;
  Ctx(ASTContext &C) : C(C), SM(C.getSourceManager()), PP(C.getLangOpts()) {}
  std::string text(const Stmt *S) {
    if (!S) return "";
    std::string s;
    llvm::raw_string_ostream os(s);
    S->printPretty(os, nullptr, PP);
    return san(os.str());
  }
  unsigned line(SourceLocation L) { return SM.getExpansionLineNumber(L); }
  std::string file(SourceLocation L) { return SM.getFilename(SM.getExpansionLoc(L)).str(); }
  json::Array macros(SourceLocation L) {
    json::Array a;
    int guard = 0;
    while (L.isMacroID() && guard++ < 16) {
      SourceLocation E = SM.getImmediateExpansionRange(L).getBegin();
      if (SM.isMacroArgExpansion(L)) { L = SM.getImmediateSpellingLoc(L); continue; }
      StringRef n = Lexer::getImmediateMacroName(L, SM, C.getLangOpts());
      a.push_back(n.str());
      L = E;
    }
    return a;
  }
  std::string declId(const ValueDecl *D) {
    if (!D) return "";
    if (auto *V = dyn_cast<VarDecl>(D))
      if (V->isLocalVarDeclOrParm() || V->isStaticLocal())
        return D->getNameAsString() + "@" + std::to_string(line(D->getLocation()));
    return D->getNameAsString();
  }
  std::string declKind(const ValueDecl *D) {
    if (!D) return "none";
    if (isa<ParmVarDecl>(D)) return "param";
    if (auto *V = dyn_cast<VarDecl>(D)) {
      if (V->isStaticLocal()) return "static_local";
      if (V->hasGlobalStorage()) return "global";
      return "local";
    }
    if (isa<FunctionDecl>(D)) return "function";
    if (isa<EnumConstantDecl>(D)) return "enumconst";
    return "other";
  }
  std::string typeStr(QualType T) { return T.getAsString(); }
  // pointee / record name stripped of qualifiers
  std::string bareType(QualType T) { return T.getUnqualifiedType().getAsString(); }
};

// ---------------------------------------------------------------- expression trees
struct TreeBuilder {
  Ctx &X;
  std::map<const CallExpr *, int> &callIds;
  int budget;
  TreeBuilder(Ctx &X, std::map<const CallExpr *, int> &ids) : X(X), callIds(ids), budget(600) {}
  json::Value arr(std::initializer_list<json::Value> l) { return json::Array(l); }
  json::Value build(const Expr *E) {
    if (!E) return nullptr;
    if (--budget < 0) return arr({"big"});
    if (auto *P = dyn_cast<ParenExpr>(E)) return build(P->getSubExpr());
    if (auto *CE = dyn_cast<ConstantExpr>(E)) return build(CE->getSubExpr());
    if (auto *IC = dyn_cast<ImplicitCastExpr>(E)) {
      const Expr *S = IC->getSubExpr();
      if (IC->getCastKind() == CK_ArrayToPointerDecay && !isa<StringLiteral>(S->IgnoreParens()) && !isa<PredefinedExpr>(S->IgnoreParens())) return arr({"decay", build(S)});
      if (IC->getCastKind() == CK_IntegralCast) {
        QualType F = S->getType(), T = IC->getType();
        if (F->isIntegerType() && T->isIntegerType() && !F->isBooleanType() && !T->isBooleanType()) {
          bool fs = F->isSignedIntegerOrEnumerationType(), ts = T->isSignedIntegerOrEnumerationType();
          uint64_t fw = X.C.getTypeSize(F), tw = X.C.getTypeSize(T);
          if ((fs != ts && fw >= tw) || (fs && !ts) || tw < fw) {
            // value-changing implicit integer conversion (sign change or narrowing)
            Expr::EvalResult R;
            if (!(S->isValueDependent()) && S->EvaluateAsInt(R, X.C)) { /* constant: harmless, fall through */ }
            else return arr({"iconv", X.bareType(F), X.bareType(T), (int64_t)fw, (int64_t)tw, fs, ts, build(S)});
          }
        }
      }
      return build(S);
    }
    // whole-expression integer constant (enum constants, sizeof, folded arithmetic)
    if (!isa<DeclRefExpr>(E) && !isa<IntegerLiteral>(E) && !isa<CharacterLiteral>(E)) {
      Expr::EvalResult R;
      if (!E->isValueDependent() && E->getType()->isIntegralOrEnumerationType() && !E->HasSideEffects(X.C) &&
          E->EvaluateAsInt(R, X.C)) {
        if (auto *UE = dyn_cast<UnaryExprOrTypeTraitExpr>(E)) {
          if (UE->getKind() == UETT_SizeOf) {
            std::string of = UE->isArgumentType() ? X.bareType(UE->getArgumentType()) : X.text(UE->getArgumentExpr());
            json::Value sub = nullptr;
            if (!UE->isArgumentType()) sub = build(UE->getArgumentExpr());
            return arr({"sizeof", of, safeInt(R.Val.getInt()), std::move(sub)});
          }
        }
        if (isa<CStyleCastExpr>(E) || isa<UnaryOperator>(E) || isa<BinaryOperator>(E))
          return arr({"int", safeInt(R.Val.getInt())});
      }
    }
    if (auto *IL = dyn_cast<IntegerLiteral>(E)) return arr({"int", safeInt(llvm::APSInt(IL->getValue(), !IL->getType()->isSignedIntegerType()))});
    if (auto *CL = dyn_cast<CharacterLiteral>(E)) return arr({"int", (int64_t)CL->getValue()});
    if (auto *FL = dyn_cast<FloatingLiteral>(E)) return arr({"float", X.text(FL)});
    if (auto *SL = dyn_cast<StringLiteral>(E)) return arr({"str", SL->getCharByteWidth() == 1 ? san(SL->getString()) : std::string("<wide>")});
    if (auto *DR = dyn_cast<DeclRefExpr>(E)) {
      const ValueDecl *D = DR->getDecl();
      if (auto *EC = dyn_cast<EnumConstantDecl>(D)) return arr({"enum", D->getNameAsString(), safeInt(EC->getInitVal())});
      if (isa<FunctionDecl>(D)) return arr({"fn", D->getNameAsString()});
      return arr({"var", X.declId(D), X.declKind(D), X.typeStr(D->getType())});
    }
    if (auto *ME = dyn_cast<MemberExpr>(E)) {
      QualType BT = ME->getBase()->getType();
      std::string rec = ME->isArrow() ? X.bareType(BT->getPointeeType()) : X.bareType(BT);
      return arr({"member", build(ME->getBase()), ME->getMemberDecl()->getNameAsString(), ME->isArrow(), rec});
    }
    if (auto *AS = dyn_cast<ArraySubscriptExpr>(E)) return arr({"sub", build(AS->getBase()), build(AS->getIdx())});
    if (auto *UO = dyn_cast<UnaryOperator>(E)) return arr({"un", UnaryOperator::getOpcodeStr(UO->getOpcode()).str() + (UO->isPostfix() ? "post" : ""), build(UO->getSubExpr())});
    if (auto *BO = dyn_cast<BinaryOperator>(E)) return arr({"bin", BO->getOpcodeStr().str(), build(BO->getLHS()), build(BO->getRHS())});
    if (auto *CO = dyn_cast<ConditionalOperator>(E)) return arr({"cond", build(CO->getCond()), build(CO->getTrueExpr()), build(CO->getFalseExpr())});
    if (auto *CS = dyn_cast<CStyleCastExpr>(E)) return arr({"cast", X.typeStr(CS->getType()), build(CS->getSubExpr())});
    if (auto *CE = dyn_cast<CallExpr>(E)) {
      json::Array args;
      for (auto *A : CE->arguments()) args.push_back(build(A));
      int id = -1;
      auto it = callIds.find(CE);
      if (it != callIds.end()) id = it->second;
      if (auto *FD = CE->getDirectCallee()) return arr({"call", id, FD->getNameAsString(), std::move(args)});
      return arr({"icall", id, build(CE->getCallee()), std::move(args)});
    }
    if (auto *UE = dyn_cast<UnaryExprOrTypeTraitExpr>(E)) return arr({"sizeof", X.text(UE), nullptr, nullptr});
    if (auto *IL = dyn_cast<InitListExpr>(E)) {
      json::Array a;
      for (auto *e : IL->inits()) a.push_back(build(e));
      return arr({"initlist", std::move(a)});
    }
    if (auto *CL = dyn_cast<CompoundLiteralExpr>(E)) return arr({"compound", build(CL->getInitializer())});
    if (auto *SE = dyn_cast<StmtExpr>(E)) {
      // GNU statement expression: its value is the last expression statement of the compound
      if (auto *CS = SE->getSubStmt()) if (!CS->body_empty()) if (auto *LE = dyn_cast<Expr>(CS->body_back())) return arr({"stmtexpr", build(LE)});
      return arr({"stmtexpr", nullptr});
    }
    if (auto *VA = dyn_cast<VAArgExpr>(E)) return arr({"va_arg", X.typeStr(VA->getType())});
    if (isa<ImplicitValueInitExpr>(E)) return arr({"int", 0});
    if (auto *PE = dyn_cast<PredefinedExpr>(E)) return arr({"str", "<func>"});
    return arr({"other", E->getStmtClassName()});
  }
};

struct VarCollector : RecursiveASTVisitor<VarCollector> {
  Ctx &X;
  std::set<std::string> vars, calls, members, enums, strs;
  VarCollector(Ctx &X) : X(X) {}
  bool VisitDeclRefExpr(DeclRefExpr *E) {
    if (isa<VarDecl>(E->getDecl())) vars.insert(X.declId(E->getDecl()));
    else if (isa<EnumConstantDecl>(E->getDecl())) enums.insert(E->getDecl()->getNameAsString());
    return true;
  }
  bool VisitCallExpr(CallExpr *E) { if (auto *F = E->getDirectCallee()) calls.insert(F->getNameAsString()); return true; }
  bool VisitMemberExpr(MemberExpr *M) { members.insert(M->getMemberDecl()->getNameAsString()); return true; }
  bool VisitStringLiteral(StringLiteral *S) { if (S->getCharByteWidth() == 1) strs.insert(san(S->getString())); return true; }
};

struct Summ {
  Ctx &X;
  std::map<const CallExpr *, int> &callIds;
  Summ(Ctx &X, std::map<const CallExpr *, int> &ids) : X(X), callIds(ids) {}
  json::Object operator()(const Expr *E) {
    json::Object o;
    if (!E) return o;
    o["text"] = X.text(E);
    VarCollector vc(X);
    vc.TraverseStmt(const_cast<Expr *>(E));
    json::Array v; for (auto &s : vc.vars) v.push_back(s); o["vars"] = std::move(v);
    json::Array c; for (auto &s : vc.calls) c.push_back(s); o["calls"] = std::move(c);
    json::Array m; for (auto &s : vc.members) m.push_back(s); o["members"] = std::move(m);
    json::Array en; for (auto &s : vc.enums) en.push_back(s); o["enums"] = std::move(en);
    if (!vc.strs.empty()) { json::Array st; for (auto &s : vc.strs) st.push_back(s); o["strs"] = std::move(st); }
    o["type"] = X.typeStr(E->getType());
    Expr::EvalResult R;
    if (!E->isValueDependent() && E->getType()->isIntegralOrEnumerationType() && E->EvaluateAsInt(R, X.C)) o["const"] = safeInt(R.Val.getInt());
    else if (!E->isValueDependent() && E->getType()->isPointerType() && E->isNullPointerConstant(X.C, Expr::NPC_NeverValueDependent)) o["const"] = 0;
    TreeBuilder tb(X, callIds);
    o["tree"] = tb.build(E);
    return o;
  }
};

// lvalue analysis: base declaration, chain of pointer dereferences (outermost first)
static void lvalueInfo(const Expr *E, Ctx &X, json::Object &o) {
  const ValueDecl *base = nullptr;
  json::Array pointees;
  std::string field;
  const Expr *top = strip(E);
  if (auto *ME = dyn_cast_or_null<MemberExpr>(top)) field = ME->getMemberDecl()->getNameAsString();
  const Expr *cur = top;
  bool viaCall = false;
  while (cur) {
    if (auto *ME = dyn_cast<MemberExpr>(cur)) {
      if (ME->isArrow()) pointees.push_back(X.bareType(ME->getBase()->getType()->getPointeeType()));
      cur = strip(ME->getBase()); continue;
    }
    if (auto *AS = dyn_cast<ArraySubscriptExpr>(cur)) {
      const Expr *B = strip(AS->getBase());
      if (B->getType()->isPointerType()) pointees.push_back(X.bareType(B->getType()->getPointeeType()));
      cur = B; continue;
    }
    if (auto *UO = dyn_cast<UnaryOperator>(cur)) {
      if (UO->getOpcode() == UO_Deref) { pointees.push_back(X.bareType(UO->getSubExpr()->getType()->getPointeeType())); cur = strip(UO->getSubExpr()); continue; }
      if (UO->getOpcode() == UO_AddrOf) { cur = strip(UO->getSubExpr()); continue; }
      if (UO->isIncrementDecrementOp()) { cur = strip(UO->getSubExpr()); continue; }
      break;
    }
    if (auto *BO = dyn_cast<BinaryOperator>(cur)) {
      if (BO->isAdditiveOp()) { cur = strip(BO->getLHS()); continue; }
      break;
    }
    if (auto *DR = dyn_cast<DeclRefExpr>(cur)) { base = DR->getDecl(); break; }
    if (isa<CallExpr>(cur)) { viaCall = true; break; }
    break;
  }
  o["lhs"] = X.text(E);
  o["base"] = base ? base->getNameAsString() : "";
  o["base_id"] = X.declId(base);
  o["base_kind"] = viaCall ? "callresult" : X.declKind(base);
  o["deref"] = !pointees.empty();
  o["pointee"] = pointees.empty() ? std::string() : pointees.front().getAsString()->str();   // type of the object written
  o["pointees"] = std::move(pointees);
  if (base) o["base_type"] = X.typeStr(base->getType());
  if (!field.empty()) o["field"] = field;
}

struct EventCollector : RecursiveASTVisitor<EventCollector> {
  Ctx &X; json::Array &ev; std::set<const Stmt *> &seen; Summ &S;
  // CFG element -> block: sub-expressions that clang evaluates in another block (arms of ?:, operands of && and ||,
  // calls hoisted into their own element) are not attributed to the block that merely mentions them
  const std::map<const Stmt *, unsigned> *elemBlock = nullptr; unsigned curBlock = 0; const Stmt *root = nullptr;
  EventCollector(Ctx &X, json::Array &ev, std::set<const Stmt *> &seen, Summ &S) : X(X), ev(ev), seen(seen), S(S) {}
  bool dataTraverseStmtPre(Stmt *St) {
    if (!elemBlock || !St || St == root) return true;
    auto it = elemBlock->find(St);
    if (it != elemBlock->end() && it->second != curBlock) return false;
    return true;
  }
  bool shouldVisitImplicitCode() const { return false; }
  // post-order so that sub-expressions (calls in the rhs) precede the assignment using them
  bool shouldTraversePostOrder() const { return true; }
  bool VisitBinaryOperator(BinaryOperator *B) {
    if (!B->isAssignmentOp()) return true;
    if (!seen.insert(B).second) return true;
    json::Object o; o["k"] = "assign"; o["op"] = B->getOpcodeStr().str();
    lvalueInfo(B->getLHS(), X, o);
    o["lhs_tree"] = S(B->getLHS())["tree"];
    o["rhs"] = S(B->getRHS());
    o["line"] = X.line(B->getOperatorLoc()); o["macros"] = X.macros(B->getOperatorLoc());
    ev.push_back(std::move(o)); return true;
  }
  bool VisitUnaryOperator(UnaryOperator *U) {
    if (U->isIncrementDecrementOp()) {
      if (!seen.insert(U).second) return true;
      json::Object o; o["k"] = "assign"; o["op"] = UnaryOperator::getOpcodeStr(U->getOpcode()).str();
      lvalueInfo(U->getSubExpr(), X, o); o["lhs_tree"] = S(U->getSubExpr())["tree"];
      o["line"] = X.line(U->getOperatorLoc()); o["macros"] = X.macros(U->getOperatorLoc());
      ev.push_back(std::move(o));
    } else if (U->getOpcode() == UO_Deref) {
      if (!seen.insert(U).second) return true;
      json::Object o; o["k"] = "deref"; lvalueInfo(U, X, o); o["tree"] = S(U)["tree"]; o["line"] = X.line(U->getOperatorLoc());
      ev.push_back(std::move(o));
    }
    return true;
  }
  bool VisitMemberExpr(MemberExpr *M) {
    if (!M->isArrow()) return true;
    if (!seen.insert(M).second) return true;
    json::Object o; o["k"] = "deref"; lvalueInfo(M, X, o); o["tree"] = S(M)["tree"]; o["arrow"] = true; o["line"] = X.line(M->getMemberLoc());
    ev.push_back(std::move(o)); return true;
  }
  bool VisitArraySubscriptExpr(ArraySubscriptExpr *A) {
    if (!seen.insert(A).second) return true;
    json::Object o; o["k"] = "subscript"; lvalueInfo(A, X, o); o["index"] = S(A->getIdx()); o["basex"] = S(A->getBase());
    o["line"] = X.line(A->getRBracketLoc()); o["macros"] = X.macros(A->getRBracketLoc());
    ev.push_back(std::move(o)); return true;
  }
  void emitAssert(const Expr *Cond, SourceLocation L) {
    json::Object a; a["k"] = "assert"; a["cond"] = S(Cond); a["line"] = X.line(L); a["macros"] = X.macros(L);
    ev.push_back(std::move(a));
  }
  bool VisitCallExpr(CallExpr *CE) {
    if (!seen.insert(CE).second) return true;
    { // a call spelled inside typeof()/sizeof type operand is not evaluated: no event
      auto ps0 = X.C.getParents(*CE);
      if (ps0.empty() || (!ps0[0].get<Stmt>() && !ps0[0].get<Decl>())) return true;
    }
    json::Object o; o["k"] = "call"; o["line"] = X.line(CE->getBeginLoc()); o["macros"] = X.macros(CE->getBeginLoc()); o["text"] = X.text(CE);
    auto it = S.callIds.find(CE);
    o["id"] = it != S.callIds.end() ? it->second : -1;
    if (auto *FD = CE->getDirectCallee()) {
      o["callee"] = FD->getNameAsString();
      o["callee_static"] = FD->getStorageClass() == SC_Static;
      if (FD->getName() == "__assert_fail") {
        // glibc assert(): (cond) ? (void)0 : __assert_fail(...)   or   if(cond) ; else __assert_fail(...)
        const Stmt *cur = CE; int g = 0;
        while (cur && g++ < 8) {
          auto ps = X.C.getParents(*cur); if (ps.empty()) break;
          const Stmt *P = ps[0].get<Stmt>(); if (!P) break;
          if (auto *I = dyn_cast<IfStmt>(P)) { emitAssert(I->getCond(), CE->getBeginLoc()); break; }
          if (auto *CO = dyn_cast<ConditionalOperator>(P)) { emitAssert(CO->getCond(), CE->getBeginLoc()); break; }
          cur = P;
        }
      }
    } else {
      const Expr *cal = strip(CE->getCallee());
      o["indirect"] = X.text(cal);
      o["callee_tree"] = S(cal)["tree"];
      if (auto *ME = dyn_cast<MemberExpr>(cal)) {
        o["slot"] = ME->getMemberDecl()->getNameAsString();
        QualType BT = ME->getBase()->getType();
        o["slot_struct"] = ME->isArrow() ? X.bareType(BT->getPointeeType()) : X.bareType(BT);
        o["slot_base"] = X.text(ME->getBase());
      } else if (auto *DR = dyn_cast<DeclRefExpr>(cal)) {
        o["fp_var"] = X.declId(DR->getDecl()); o["fp_kind"] = X.declKind(DR->getDecl());
      }
      o["fp_type"] = X.typeStr(cal->getType());
    }
    json::Array args; for (auto *A : CE->arguments()) args.push_back(S(A)); o["args"] = std::move(args);
    o["ret_type"] = X.typeStr(CE->getType());
    {
      QualType CT = CE->getCallee()->getType();
      if (CT->isPointerType()) CT = CT->getPointeeType();
      if (auto *FPT = CT->getAs<FunctionProtoType>()) {
        json::Array pt; for (auto T : FPT->param_types()) pt.push_back(X.typeStr(T));
        o["param_types"] = std::move(pt); o["variadic"] = FPT->isVariadic();
      }
    }
    // how is the result used?
    std::string use = "unknown"; json::Object useinfo;
    const Stmt *cur = CE; int depth = 0; bool orphan = false;
    while (depth++ < 8) {
      auto ps = X.C.getParents(*cur); if (ps.empty()) { orphan = true; break; }
      const Stmt *P = ps[0].get<Stmt>();
      if (!P) { if (auto *VD = ps[0].get<VarDecl>()) { use = "init"; useinfo["var"] = X.declId(VD); } else if (!ps[0].get<Decl>()) orphan = true; break; }
      if (isa<ParenExpr>(P) || isa<ImplicitCastExpr>(P) || isa<ConstantExpr>(P)) { cur = P; continue; }
      if (auto *CS = dyn_cast<CStyleCastExpr>(P)) { if (CS->getType()->isVoidType()) { use = "voidcast"; break; } cur = P; continue; }
      if (isa<CompoundStmt>(P)) { use = "discarded"; break; }
      if (auto *BO = dyn_cast<BinaryOperator>(P)) {
        if (BO->isAssignmentOp() && strip(BO->getRHS()) == strip(cast<Expr>(cur))) {
          use = BO->getOpcode() == BO_Assign ? "assigned" : "compound_assigned";
          useinfo["lhs"] = X.text(BO->getLHS()); useinfo["lhs_tree"] = S(BO->getLHS())["tree"]; useinfo["op"] = BO->getOpcodeStr().str();
        } else if (BO->isAssignmentOp()) { use = "operand"; useinfo["op"] = BO->getOpcodeStr().str(); useinfo["expr"] = S(BO)["tree"]; }
        else if (BO->isComparisonOp()) { use = "compared"; useinfo["cmp"] = S(BO)["tree"]; }
        else if (BO->getOpcode() == BO_Comma) { use = (BO->getLHS() == cur) ? "discarded" : "comma_rhs"; }
        else if (BO->isLogicalOp()) use = "cond";
        else { use = "operand"; useinfo["op"] = BO->getOpcodeStr().str(); useinfo["expr"] = S(BO)["tree"]; }
        break;
      }
      if (auto *I = dyn_cast<IfStmt>(P)) { use = (I->getCond() == cur) ? "cond" : "discarded"; break; }
      if (auto *W = dyn_cast<WhileStmt>(P)) { use = (W->getCond() == cur) ? "cond" : "discarded"; break; }
      if (auto *D = dyn_cast<DoStmt>(P)) { use = (D->getCond() == cur) ? "cond" : "discarded"; break; }
      if (auto *Fo = dyn_cast<ForStmt>(P)) { use = (Fo->getCond() == cur) ? "cond" : "discarded"; break; }
      if (auto *CO = dyn_cast<ConditionalOperator>(P)) { if (CO->getCond() == cur) { use = "cond"; break; } cur = P; continue; }
      if (isa<SwitchStmt>(P)) { use = (cast<SwitchStmt>(P)->getCond() == cur) ? "switch" : "discarded"; break; }
      if (isa<ReturnStmt>(P)) { use = "returned"; break; }
      if (auto *UO = dyn_cast<UnaryOperator>(P)) { if (UO->getOpcode() == UO_LNot) { use = "cond"; break; } cur = P; continue; }
      if (auto *PC = dyn_cast<CallExpr>(P)) { use = "arg"; if (auto *PF = PC->getDirectCallee()) useinfo["of"] = PF->getNameAsString(); break; }
      if (auto *ME = dyn_cast<MemberExpr>(P)) {
        use = "member"; useinfo["field"] = ME->getMemberDecl()->getNameAsString();
        const Stmt *q = P;
        for (int k = 0; k < 4; k++) { auto p3 = X.C.getParents(*q); if (p3.empty()) { q = nullptr; break; } q = p3[0].get<Stmt>(); if (!q) break; if (!(isa<ImplicitCastExpr>(q) || isa<ParenExpr>(q))) break; }
        if (q) if (auto *BO2 = dyn_cast<BinaryOperator>(q)) if (BO2->isComparisonOp()) useinfo["cmp"] = S(BO2)["tree"];
        break;
      }
      if (isa<DeclStmt>(P)) { use = "init"; break; }
      if (isa<CaseStmt>(P) || isa<DefaultStmt>(P) || isa<LabelStmt>(P)) { use = "discarded"; break; }
      if (isa<InitListExpr>(P)) { use = "init"; break; }
      use = std::string("other:") + P->getStmtClassName(); break;
    }
    o["use"] = use; o["useinfo"] = std::move(useinfo);
    ev.push_back(std::move(o)); return true;
  }
};

struct CallNumberer : RecursiveASTVisitor<CallNumberer> {
  std::map<const CallExpr *, int> &ids; int n = 0;
  CallNumberer(std::map<const CallExpr *, int> &ids) : ids(ids) {}
  bool VisitCallExpr(CallExpr *CE) { ids[CE] = n++; return true; }
};

class V : public RecursiveASTVisitor<V> {
  Ctx X; json::Array funcs, globals, enums; std::set<std::string> seenEnums;
public:
  V(ASTContext &C) : X(C) {}
  json::Object result() { json::Object o; o["functions"] = std::move(funcs); o["globals"] = std::move(globals); o["enums"] = std::move(enums); return o; }
  json::Value initSummary(const Expr *I, int depth = 0) {
    if (!I) return nullptr;
    if (auto *IL = dyn_cast<InitListExpr>(I)) {
      if (IL->isSemanticForm() == false && IL->getSemanticForm()) IL = IL->getSemanticForm();
      QualType T = IL->getType();
      if (auto *RT = T->getAs<RecordType>()) {
        json::Object obj; unsigned i = 0;
        const RecordDecl *RD = RT->getDecl();
        if (RD->isUnion()) { if (auto *F = IL->getInitializedFieldInUnion()) if (IL->getNumInits()) obj[F->getNameAsString()] = initSummary(IL->getInit(0), depth + 1); return std::move(obj); }
        for (auto *F : RD->fields()) { if (i >= IL->getNumInits()) break; std::string n = F->getNameAsString(); if (n.empty()) n = "#" + std::to_string(i); obj[n] = initSummary(IL->getInit(i), depth + 1); i++; }
        return std::move(obj);
      }
      json::Array a;
      unsigned n = IL->getNumInits();
      if (n > 4096) { a.push_back("truncated:" + std::to_string(n)); return std::move(a); }
      for (auto *e : IL->inits()) a.push_back(initSummary(e, depth + 1));
      return std::move(a);
    }
    const Expr *S = I->IgnoreParenCasts();
    if (S != I && isa<InitListExpr>(S)) return initSummary(S, depth);
    if (auto *CL = dyn_cast<CompoundLiteralExpr>(S)) return initSummary(CL->getInitializer(), depth);
    if (auto *UO = dyn_cast<UnaryOperator>(S)) if (UO->getOpcode() == UO_AddrOf) {
      const Expr *Sub = UO->getSubExpr()->IgnoreParenCasts();
      if (auto *DR = dyn_cast<DeclRefExpr>(Sub)) return "&" + DR->getDecl()->getNameAsString();
      return "&expr:" + X.text(Sub);
    }
    if (auto *DR = dyn_cast<DeclRefExpr>(S)) { if (!isa<EnumConstantDecl>(DR->getDecl())) return (isa<FunctionDecl>(DR->getDecl()) ? "fn:" : "obj:") + DR->getDecl()->getNameAsString(); }
    if (auto *SL = dyn_cast<StringLiteral>(S)) return "str:" + (SL->getCharByteWidth() == 1 ? san(SL->getString()) : std::string("<wide>"));
    Expr::EvalResult R;
    if (!S->isValueDependent() && S->getType()->isIntegralOrEnumerationType() && S->EvaluateAsInt(R, X.C)) return safeInt(R.Val.getInt());
    if (I->isNullPointerConstant(X.C, Expr::NPC_NeverValueDependent)) return 0;
    if (isa<ImplicitValueInitExpr>(S)) return 0;
    return "expr:" + X.text(S);
  }
  bool VisitEnumDecl(EnumDecl *E) {
    if (!E->isThisDeclarationADefinition()) return true;
    std::string name = E->getNameAsString();
    if (name.empty()) if (auto *TD = E->getTypedefNameForAnonDecl()) name = TD->getNameAsString();
    std::string key = name + "@" + X.file(E->getLocation()) + ":" + std::to_string(X.line(E->getLocation()));
    if (!seenEnums.insert(key).second) return true;
    json::Object o; o["name"] = name; o["file"] = X.file(E->getLocation()); o["line"] = X.line(E->getLocation());
    if (auto *TD = E->getTypedefNameForAnonDecl()) o["typedef"] = TD->getNameAsString();
    json::Array en; for (auto *C : E->enumerators()) { json::Array p; p.push_back(C->getNameAsString()); p.push_back(safeInt(C->getInitVal())); en.push_back(std::move(p)); }
    o["enumerators"] = std::move(en); enums.push_back(std::move(o)); return true;
  }
  bool VisitVarDecl(VarDecl *D) {
    if (!D->hasGlobalStorage() || isa<ParmVarDecl>(D)) return true;
    json::Object o; o["name"] = D->getNameAsString(); o["type"] = X.typeStr(D->getType());
    QualType ET = X.C.getBaseElementType(D->getType());
    o["const"] = D->getType().isConstQualified() || ET.isConstQualified();
    o["static_local"] = D->isStaticLocal(); o["file_static"] = D->getStorageClass() == SC_Static && !D->isStaticLocal();
    o["definition"] = D->isThisDeclarationADefinition() != VarDecl::DeclarationOnly;
    o["file"] = X.file(D->getLocation()); o["line"] = X.line(D->getLocation());
    o["id"] = X.declId(D);
    if (D->isStaticLocal()) if (auto *F = dyn_cast<FunctionDecl>(D->getDeclContext())) o["in_function"] = F->getNameAsString();
    o["base_type"] = X.bareType(ET);
    o["is_array"] = D->getType()->isArrayType();
    o["tls"] = D->getTLSKind() != VarDecl::TLS_None;
    if (D->hasInit() && D->isThisDeclarationADefinition() != VarDecl::DeclarationOnly) {
      bool big = false;
      if (auto *AT = X.C.getAsConstantArrayType(D->getType())) if (AT->getSize().getLimitedValue() > 256 && !ET->isRecordType() && !ET->isPointerType()) big = true;
      if (!big) o["init"] = initSummary(D->getInit());
    }
    globals.push_back(std::move(o)); return true;
  }
  json::Array lexctx(const Stmt *S, Summ &Sm) {
    json::Array a; const Stmt *cur = S; int guard = 0;
    while (cur && guard++ < 64) {
      auto ps = X.C.getParents(*cur); if (ps.empty()) break;
      const Stmt *P = ps[0].get<Stmt>(); if (!P) break;
      json::Object o; bool put = false;
      if (auto *I = dyn_cast<IfStmt>(P)) { if (cur != I->getCond()) { o["kind"] = "if"; o["branch"] = (cur == I->getThen()) ? "then" : "else"; o["cond"] = Sm(I->getCond()); o["line"] = X.line(I->getIfLoc()); put = true; } }
      else if (auto *Fo = dyn_cast<ForStmt>(P)) { if (cur == Fo->getBody()) { o["kind"] = "for"; if (Fo->getCond()) o["cond"] = Sm(Fo->getCond()); o["line"] = X.line(Fo->getForLoc()); put = true; } }
      else if (auto *W = dyn_cast<WhileStmt>(P)) { if (cur == W->getBody()) { o["kind"] = "while"; o["cond"] = Sm(W->getCond()); o["line"] = X.line(W->getWhileLoc()); put = true; } }
      else if (auto *D = dyn_cast<DoStmt>(P)) { if (cur == D->getBody()) { o["kind"] = "do"; o["cond"] = Sm(D->getCond()); o["line"] = X.line(D->getDoLoc()); put = true; } }
      else if (auto *Sw = dyn_cast<SwitchStmt>(P)) { if (cur == Sw->getBody()) { o["kind"] = "switch"; o["cond"] = Sm(Sw->getCond()); o["line"] = X.line(Sw->getSwitchLoc()); put = true; } }
      if (put) a.push_back(std::move(o));
      cur = P;
    }
    return a;
  }
  bool VisitFunctionDecl(FunctionDecl *F) {
    if (!F->hasBody() || !F->isThisDeclarationADefinition()) return true;
    json::Object fo; fo["name"] = F->getNameAsString(); fo["file"] = X.file(F->getLocation()); fo["line"] = X.line(F->getLocation());
    fo["static"] = F->getStorageClass() == SC_Static; fo["inline"] = F->isInlineSpecified(); fo["ret_type"] = X.typeStr(F->getReturnType());
    json::Array ps; for (auto *P : F->parameters()) { json::Object po; po["name"] = P->getNameAsString(); po["id"] = X.declId(P); po["type"] = X.typeStr(P->getType()); ps.push_back(std::move(po)); } fo["params"] = std::move(ps);
    std::map<const CallExpr *, int> callIds; CallNumberer cn(callIds); cn.TraverseStmt(F->getBody());
    Summ S(X, callIds);
    CFG::BuildOptions BO;
    auto cfg = CFG::buildCFG(F, F->getBody(), &X.C, BO);
    json::Array blocks; std::set<const Stmt *> seen;
    std::map<const Stmt *, unsigned> elemBlock;
    if (cfg) for (auto *B : *cfg) for (auto &E : *B) if (auto CS = E.getAs<CFGStmt>()) elemBlock[CS->getStmt()] = B->getBlockID();
    if (cfg) {
      fo["entry"] = cfg->getEntry().getBlockID(); fo["exit"] = cfg->getExit().getBlockID();
      for (auto *B : *cfg) {
        json::Object bo; bo["id"] = B->getBlockID();
        json::Array succ;
        for (auto SI = B->succ_begin(); SI != B->succ_end(); ++SI) {
          if (SI->getReachableBlock()) succ.push_back(SI->getReachableBlock()->getBlockID());
          else if (SI->getPossiblyUnreachableBlock()) succ.push_back(-(int64_t)SI->getPossiblyUnreachableBlock()->getBlockID() - 1000000);
          else succ.push_back(nullptr);
        }
        bo["succ"] = std::move(succ);
        if (const Stmt *L = B->getLabel()) {
          json::Object lo;
          if (auto *CS = dyn_cast<CaseStmt>(L)) { lo["kind"] = "case"; Expr::EvalResult R; if (CS->getLHS()->EvaluateAsInt(R, X.C)) lo["value"] = safeInt(R.Val.getInt()); if (CS->getRHS()) { Expr::EvalResult R2; if (CS->getRHS()->EvaluateAsInt(R2, X.C)) lo["value_hi"] = safeInt(R2.Val.getInt()); } lo["text"] = X.text(CS->getLHS()); }
          else if (isa<DefaultStmt>(L)) lo["kind"] = "default";
          else if (auto *LS = dyn_cast<LabelStmt>(L)) { lo["kind"] = "label"; lo["name"] = std::string(LS->getName()); }
          bo["label"] = std::move(lo);
        }
        json::Array ev;
        for (auto &E : *B) {
          auto CS = E.getAs<CFGStmt>(); if (!CS) continue; const Stmt *st = CS->getStmt();
          if (auto *DS = dyn_cast<DeclStmt>(st)) {
            for (auto *D : DS->decls()) if (auto *VD = dyn_cast<VarDecl>(D)) {
              if (VD->hasInit() && !VD->isStaticLocal()) { EventCollector ec(X, ev, seen, S); ec.elemBlock = &elemBlock; ec.curBlock = B->getBlockID(); ec.root = VD->getInit(); ec.TraverseStmt(VD->getInit()); }
              json::Object o; o["k"] = "decl"; o["var"] = VD->getNameAsString(); o["id"] = X.declId(VD); o["type"] = X.typeStr(VD->getType()); o["line"] = X.line(VD->getLocation()); o["static_local"] = VD->isStaticLocal();
              o["is_array"] = VD->getType()->isArrayType(); o["vla"] = VD->getType()->isVariableArrayType();
              if (VD->hasInit()) o["init"] = S(VD->getInit());
              ev.push_back(std::move(o));
            }
            continue;
          }
          if (auto *RS = dyn_cast<ReturnStmt>(st)) {
            if (RS->getRetValue()) { EventCollector ec(X, ev, seen, S); ec.elemBlock = &elemBlock; ec.curBlock = B->getBlockID(); ec.root = RS->getRetValue(); ec.TraverseStmt(const_cast<Expr *>(RS->getRetValue())); }
            json::Object o; o["k"] = "return"; o["line"] = X.line(RS->getReturnLoc()); o["ctx"] = lexctx(RS, S); o["macros"] = X.macros(RS->getReturnLoc());
            if (RS->getRetValue()) o["expr"] = S(RS->getRetValue());
            ev.push_back(std::move(o)); continue;
          }
          EventCollector ec(X, ev, seen, S); ec.elemBlock = &elemBlock; ec.curBlock = B->getBlockID(); ec.root = st; ec.TraverseStmt(const_cast<Stmt *>(st));
        }
        bo["ev"] = std::move(ev);
        if (const Stmt *T = B->getTerminatorStmt()) {
          json::Object to; to["kind"] = T->getStmtClassName(); to["line"] = X.line(T->getBeginLoc()); to["macros"] = X.macros(T->getBeginLoc());
          if (const Expr *Cnd = dyn_cast_or_null<Expr>(B->getTerminatorCondition())) { to["cond"] = S(Cnd);
            if (auto *Sw = dyn_cast<SwitchStmt>(T)) { QualType CT = Sw->getCond()->IgnoreParenImpCasts()->getType(); if (auto *ET = CT->getAs<EnumType>()) { std::string n = ET->getDecl()->getNameAsString(); if (n.empty()) if (auto *TD = ET->getDecl()->getTypedefNameForAnonDecl()) n = TD->getNameAsString(); to["enum"] = n; to["enum_loc"] = X.file(ET->getDecl()->getLocation()) + ":" + std::to_string(X.line(ET->getDecl()->getLocation())); } }
          }
          if (auto *G = dyn_cast<GotoStmt>(T)) to["goto"] = G->getLabel()->getNameAsString();
          if (auto *BOp = dyn_cast<BinaryOperator>(T)) to["op"] = BOp->getOpcodeStr().str();
          bo["term"] = std::move(to);
        }
        blocks.push_back(std::move(bo));
      }
    }
    fo["blocks"] = std::move(blocks);
    funcs.push_back(std::move(fo)); return true;
  }
};
class Cons : public ASTConsumer {
  std::string in;
public:
  Cons(std::string in) : in(in) {}
  void HandleTranslationUnit(ASTContext &C) override {
    if (C.getDiagnostics().hasErrorOccurred()) return;   // no output => the driver reports a parse failure
    V v(C); v.TraverseDecl(C.getTranslationUnitDecl());
    json::Object o = v.result(); o["tu"] = in;
    std::string base = in; for (auto &ch : base) if (ch == '/') ch = '_';
    std::error_code EC; llvm::raw_fd_ostream os(OutDir + "/" + base + ".json", EC);
    os << json::Value(std::move(o));
  }
};
class Act : public ASTFrontendAction {
public:
  std::unique_ptr<ASTConsumer> CreateASTConsumer(CompilerInstance &, StringRef In) override { return std::make_unique<Cons>(In.str()); }
};
int main(int argc, const char **argv) {
  auto P = CommonOptionsParser::create(argc, argv, Cat);
  if (!P) { llvm::errs() << P.takeError(); return 1; }
  ClangTool T(P->getCompilations(), P->getSourcePathList());
  return T.run(newFrontendActionFactory<Act>().get());
}
