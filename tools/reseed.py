#!/usr/bin/env python3
"""tools/reseed.py [--all] — re-run tools/seedtest for the seeds under /verif/seeded/ that no check reported when they were
imported (or for all of them) and update `detected_by` in their meta.json.  A seed whose patch no longer applies to the
current /repo (the tree was repaired underneath it) keeps its old verdict and gets a note."""
import json, os, subprocess, sys
from concurrent.futures import ThreadPoolExecutor
V = os.path.dirname(os.path.dirname(os.path.abspath(__file__)))
allseeds = "--all" in sys.argv
todo = []
for sid in sorted(os.listdir(os.path.join(V, "seeded"))):
    mp = os.path.join(V, "seeded", sid, "meta.json")
    if not os.path.exists(mp):
        continue
    m = json.load(open(mp))
    if allseeds or not m.get("detected_by"):
        todo.append(sid)


def run(sid):
    d = os.path.join(V, "seeded", sid)
    p = subprocess.run([os.path.join(V, "tools", "seedtest"), os.path.join(d, "patch.diff")], stdout=subprocess.PIPE, stderr=subprocess.STDOUT, text=True)
    return sid, p.returncode, p.stdout


with ThreadPoolExecutor(max_workers=int(os.environ.get("J", "3"))) as ex:
    for sid, rc, out in ex.map(run, todo):
        mp = os.path.join(V, "seeded", sid, "meta.json")
        m = json.load(open(mp))
        if "PATCH FAILED" in out:
            m["reseed_note"] = "patch no longer applies to the repaired tree; verdict kept from import"
            print(sid, "patch no longer applies")
        else:
            det = sorted({" ".join(l.split()[0:1] + l.split()[2:4]) for l in out.splitlines() if " NEW-VIOLATION " in l})
            broken = [l for l in out.splitlines() if "ANALYSIS-BROKEN" in l]
            det += sorted({l.split()[0] + " ANALYSIS-BROKEN" for l in broken})
            if det != m.get("detected_by"):
                print(sid, "->", det or "still missed")
            m["detected_by"] = det
            m["missed_by_all_checks"] = not det
        json.dump(m, open(mp, "w"), indent=1)
