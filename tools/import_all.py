#!/usr/bin/env python3
"""tools/import_all.py <seed root> <suffix> <confirm log>... — import every confirmed seed <root>/<Cxx>.out/<k> that is not yet
under /verif/seeded/ as <Cxx>-<suffix><k> (suffix '' for the first wave). `needs_to_manifest` is taken from the section of
notes.md whose heading mentions what is needed to manifest."""
import json, os, re, subprocess, sys
V = os.path.dirname(os.path.dirname(os.path.abspath(__file__)))
root, suffix = sys.argv[1], sys.argv[2]
logs = sys.argv[3:]
conf = {}
for lg in logs:
    for line in open(lg):
        try:
            d = json.loads(line)
        except Exception:
            continue
        conf[d.get("seed", "").rstrip("/")] = d


def needs_of(d):
    p = os.path.join(d, "notes.md")
    if not os.path.exists(p):
        return ""
    txt = open(p).read()
    m = re.search(r"^#+ .*?(needed|manifest|trigger).*?\n(.*?)(?=^#+ |\Z)", txt, re.S | re.M | re.I)
    body = (m.group(2) if m else txt[:600]).strip()
    body = " ".join(body.split())
    return body[:500]


for ent in sorted(os.listdir(root)):
    if not ent.endswith(".out"):
        continue
    prop = ent[:-4]
    for k in ("1", "2", "3"):
        d = os.path.join(root, ent, k)
        if not os.path.exists(os.path.join(d, "patch.diff")):
            continue
        sid = "%s-%s%s" % (prop, suffix, k)
        if os.path.exists(os.path.join(V, "seeded", sid, "meta.json")):
            continue
        if os.path.abspath(d) not in conf:
            print(sid, "not confirmed yet")
            continue
        c = conf[os.path.abspath(d)]
        if c.get("error") or c.get("build_status") != 0 or c.get("suite_pass") != 82 or c.get("demo_on_clean") != 0 or c.get("demo_with_change") == 0:
            print(sid, "NOT KEPT (confirmation failed):", json.dumps(c))
            continue
        subprocess.run([os.path.join(V, "tools", "import_seed.py"), d, sid, prop, needs_of(d)] + logs)
