#!/bin/sh
# tools/confirm_seed.sh <dir with patch.diff + demo.sh> : confirm in a scratch copy of /repo that the seeded change
# (1) compiles, (2) still passes the 82-test suite, (3) makes demo.sh fail while demo.sh passes on the unmodified copy.
# Prints one JSON line. Removes the scratch copy.
S=$(cd "$1" && pwd)
W=$(mktemp -d /tmp/asn1c-seedconf-XXXXXX)
trap 'rm -rf "$W"' EXIT
cp -a /repo "$W/r"; cd "$W/r"; git checkout -q -- . 2>/dev/null; [ -n "$SEED_BASE" ] && git checkout -q "$SEED_BASE" 2>/dev/null
rm -rf tests/tests-c-compiler/test-check* tests/tests-randomized/.tmp.*
make -j16 abs_top_srcdir="$W/r" abs_top_builddir="$W/r" > "$W/b0.log" 2>&1
sh "$S/demo.sh" "$W/r" > "$W/demo_clean.log" 2>&1; dc=$?
git apply "$S/patch.diff" || { echo "{\"seed\":\"$S\",\"error\":\"patch does not apply\"}"; exit 0; }
make -j16 abs_top_srcdir="$W/r" abs_top_builddir="$W/r" > "$W/b1.log" 2>&1; bs=$?
sh "$S/demo.sh" "$W/r" > "$W/demo_mut.log" 2>&1; dm=$?
make check -j16 -k abs_top_srcdir="$W/r" abs_top_builddir="$W/r" 'abs_builddir=$(CURDIR)' > "$W/check.log" 2>&1
np=$(grep -c '^PASS:' "$W/check.log"); fl=$(grep -E '^(FAIL|ERROR):' "$W/check.log" | tr '\n' ' ')
echo "{\"seed\":\"$S\",\"build_status\":$bs,\"demo_on_clean\":$dc,\"demo_with_change\":$dm,\"suite_pass\":$np,\"suite_fail\":\"$fl\"}"
