"""What MANIFEST.json claims; tools/mkmanifest.py turns this into the manifest."""
T_CFG = "custom static analysis over clang CFG facts (libTooling extractor + Python rules)"
CHECKS = {
 "C04": ("decides necessary structural conditions of memory-safe decoding on every path: no call through a NULL op-table slot on the decode/free/print/compare side (assume-NULL reachability over all op tables)",
         "assume-NULL CFG reachability over op-table initializers; " + T_CFG, "4 C04"),
 "C05": ("decides on every path of every BER/OER/XER decoder: a decoder that keeps no context reports nothing consumed with RC_WMORE; header octets are never reported consumed with RC_WMORE unless the context was updated after fetching them; RC_WMORE never reports 0 after state was saved and input consumed; a fetch routine's `need more` answer becomes RC_WMORE",
         "dataflow return abstraction (code, consumed) + path-sensitive CFG walk correlating context writes, cursor advances and returns; assume-zero exploration of fetch results", "4 C05"),
 "C07": ("decides on every path of every encoder: a failed output call (callback, bit writer, member encoder) always becomes a failing return (assume-failure path exploration with correlated branches); no loop that can never end in success; no NULL encoder slot call; bounded copy, always-count and EIO obligations of the asn_application.c wrappers",
         "fallible-call set by call-graph closure + assume-failure path-sensitive CFG exploration; loop-cycle invariance; must-pass-through", "4 C07"),
 "C08": ("decides: container constraint walkers cannot return success from inside the member loop; a checker always exists (descriptor tables + assume-NULL fallback); the error text writes in constraints.c are bounded by the caller's length",
         "AST/CFG rules over return sites, initializer tables, assume-NULL reachability, bounded-index dominance", "4 C08"),
 "C10": ("decides: a failing pipeline stage always ends in a non-zero exit and never reaches code generation (assume-failure exploration of main); every compiler recursion that follows resolved symbol references is bracketed by the TM_RECURSION mark; the skeleton set shipped for each codec configuration and each activation is link-closed (model of asn1c_fdeps.c over file-dependencies + extracted symbol tables); no enumerator without a case folds into an assertion through a default branch",
         "assume-failure path exploration; call-graph SCC + reaching-definitions provenance + mark dominance; activation-model link closure; finite constant folding of enum switch defaults", "4 C10"),
 "C11": ("decides: a fatal status of any fixer function is never dropped on any path (assume -1, follow the value through RET2RVAL copies/switches to the return); each uniqueness checker named by the property is reached from asn1f_process along status-propagating call sites (callback-specific edges through asn1f_recurse_expr)",
         "status-function fixpoint + assume-failure path-sensitive exploration with copy/const propagation and liveness-normalised states; call-graph path over propagating edges", "4 C11"),
 "C12": ("decides necessary conditions of deterministic output: hash iteration and directory enumeration only in allow-listed diagnostic/loader functions, no clock/random/pid/environment source, no %p in formats, sort comparators never order by element address",
         "who-may-call and effect rules over the resolved call graph of the compiler", "4 C12"),
 "C13": ("decides: the emitters of wire-relevant tables (PER/OER constraints, tag vectors, tag maps) and their callees never read a representation option",
         "effect (flag-read) analysis over call-graph reachability from anchored emitters", "4 C13"),
 "C14": ("decides for every function-local allocation: freed, handed over or moved on every path to a return, never freed twice, never used when NULL (path-sensitive ownership walk with alias groups, guard flags, heap-or-stack buffers); no self-assigning realloc; free functions handle the three disposal methods and release ctx->ptr; CHOICE decoders record the alternative around the member decode",
         "path-sensitive ownership/typestate analysis over clang CFG facts with helper summaries; switch-case coverage; dominance/must-pass-through", "4 C14"),
 "C15": ("decides: every call-graph cycle reachable from a decoder passes a used stack-limit check on each iteration (SCCs over slot-resolved call graph, guarded-edge removal); decode entry points install a non-zero limit in a context on their own stack on every path",
         "call-graph SCC + dominance of checker calls with failure-edge pruning; must-pass-through on entry points", "4 C15"),
 "C19": ("effect analysis over the resolved call graph: no write to static storage, no store through descriptor pointers, no process-global libc calls, in everything reachable from the codec/print/free/validate entry points",
         "call-graph reachability + per-function effect/alias dataflow over clang CFG facts (custom libTooling extractor)", "4 C19"),
}
NA = {
 "C01": "round-trip equality relates two interpreters over all values and run-time-generated tables; its only structural prerequisites are decided under C04/C05/C07",
 "C02": "byte-exact conformance is the numeric content of the length/tag/number serialisers; nothing of it is visible in code shape",
 "C03": "acceptance of every valid alternative encoding is language inclusion over the decoder automata; restart/error mapping is decided under C05",
 "C09": "effective-constraint computation is interval arithmetic over all constraint trees; no structural clause",
 "C17": "OID arc and calendar conversions are numeric; their global-state aspect is decided under C19",
}
