#!/usr/bin/env python3
"""tools/mk106.py — rewrite section 10.6 of DESIGN.md from /verif/seeded/*/meta.json (intro text + tools/seedtable.py)."""
import os, subprocess, json
V = os.path.dirname(os.path.dirname(os.path.abspath(__file__)))
p = os.path.join(V, "DESIGN.md")
s = open(p).read()
i = s.index("### 10.6 Seeded changes and which checks report them")
table = subprocess.check_output([os.path.join(V, "tools", "seedtable.py")], text=True)
n = sum(1 for d in os.listdir(os.path.join(V, "seeded")) if os.path.exists(os.path.join(V, "seeded", d, "meta.json")))
byround = {"A": [0, 0], "B": [0, 0], "C": [0, 0], "D": [0, 0]}
for d in os.listdir(os.path.join(V, "seeded")):
    mp = os.path.join(V, "seeded", d, "meta.json")
    if not os.path.exists(mp):
        continue
    m = json.load(open(mp))
    k = d.split("-")[1][0]
    rnd = k if k in ("B", "C", "D") else "A"
    byround[rnd][0] += 1
    byround[rnd][1] += 1 if m.get("detected_by") else 0
intro = """### 10.6 Seeded changes and which checks report them

Four rounds: A, B and C with one sub-agent per claimed property and three changes each, D with eight agents (the properties
with the lowest hit rates) and two changes each (%d kept; rounds B to D were told which functions the earlier rounds had
touched and asked to go elsewhere, C and D also to spread over files and mechanisms and to report, with reproducers,
what they saw the unchanged tree do wrong).
Every row was confirmed by me in a scratch copy (`tools/confirm_seed.sh`: builds, the 82 tests pass, the demonstration
fails with the change and passes without) and is kept under `seeded/<id>/` with the patch, the demonstration and
`meta.json`. "reported by" is the output of `tools/seedtest` (all checks, scratch copy with the patch applied) on the
machinery as committed; the seeds no check had reported at import time were re-run at the end (`tools/reseed.py`).
Checks were strengthened after each round; the rules that exist because of a seed, or because of something an agent
observed on the unchanged tree, are listed in 10.2. Patches whose context was changed by a later repair of /repo were
re-made against the repaired tree with the same edit (the delivered patch is kept next to it as
`patch.as-delivered.diff`): three round-B patches against OPEN_TYPE.c (F53/F54), C11-2 (F56), C04-C3 (F58) and C16-C2
(F72). C12-1 was valid when produced and is neutralised by the repair F28; C10-B1 no longer applies because repair
F70 rewrote the lines it changed (its defect class, a quotation mark in a DEFAULT string, was already handled by HEAD).

Per round: A %d of %d reported, B %d of %d, C %d of %d, D %d of %d.

The misses are value-level: an off-by-one or wrong constant in a numeric bound, a wrong mask or threshold, the content
of printed text or of an emitted table, a changed search or lookup preference, a protocol detail of a length or
fragment encoding, a shortcut that is only wrong for some values. No clause visible in the shape of the code
distinguishes them from the original, and an honest static rule for them would be a frozen copy of the constant.

""" % (n, byround["A"][1], byround["A"][0], byround["B"][1], byround["B"][0], byround["C"][1], byround["C"][0], byround["D"][1], byround["D"][0])
open(p, "w").write(s[:i] + intro + table)
print("10.6 rewritten:", n, byround)
