#!/usr/bin/env python3
"""tools/seedtable.py — markdown table of /verif/seeded/*/meta.json (for DESIGN.md section 10.6)"""
import json, os, re, sys
V = os.path.dirname(os.path.dirname(os.path.abspath(__file__)))
rows = []
for sid in sorted(os.listdir(os.path.join(V, "seeded")), key=lambda s: (s.split("-")[0], s.split("-")[1])):
    p = os.path.join(V, "seeded", sid, "meta.json")
    if not os.path.exists(p):
        continue
    m = json.load(open(p))
    patch = open(os.path.join(V, "seeded", sid, "patch.diff")).read()
    files = re.findall(r"^\+\+\+ b/(.*)$", patch, re.M)
    funcs = re.findall(r"^@@.*@@ (.*)$", patch, re.M)
    fn = funcs[0].split("(")[0].split()[-1] if funcs and funcs[0].strip() else "?"
    det = m.get("detected_by") or []
    title = re.sub(r"^.*?(—|--|-) ", "", m.get("title", ""))[:90]
    rows.append((sid, files[0].split("/")[-1] if files else "?", fn, title, ", ".join(sorted({d.split()[0] + " " + d.split()[1] for d in det})) or "**missed**", m.get("note", "")))
print("| seed | file: function | what the change does | reported by |")
print("|---|---|---|---|")
for sid, fl, fn, title, det, note in rows:
    print("| %s | %s: %s | %s%s | %s |" % (sid, fl, fn, title, " (%s)" % note[:80] if note else "", det))
n = len(rows)
hit = sum(1 for r in rows if r[4] != "**missed**")
print("\n%d seeds, %d reported by at least one check, %d missed." % (n, hit, n - hit))
