#!/bin/sh
# validate MANIFEST.json and every evidence file against the harness schemas
cd "$(dirname "$0")/.."
python3-vt - <<'P'
import json,jsonschema,glob
jsonschema.validate(json.load(open('MANIFEST.json')),json.load(open('/root/.vp/MANIFEST.schema.json')))
print('manifest valid')
s=json.load(open('/root/.vp/EVIDENCE.schema.json'))
for f in sorted(glob.glob('evidence/C*.json')):
    jsonschema.validate(json.load(open(f)),s); print(f,'valid')
P
