"""helper: mut(pid, path, old, new, name, desc, *expects) applies an edit in /repo, captures it as a mutant, reverts."""
import subprocess
def mut(pid, path, old, new, name, desc, *exp, count=1):
    p='/repo/'+path; s=open(p).read()
    assert old in s, (name, 'anchor missing')
    s=s.replace(old,new,count); open(p,'w').write(s)
    subprocess.check_call(['/verif/tools/mkmut',pid,name,desc]+list(exp))
