#!/usr/bin/env python3
"""tools/import_seed.py <seed out dir> <id> <property> "<what it needs to manifest>" — copy a confirmed seeded change into
/verif/seeded/<id>/ with meta.json (confirmation result from tools/confirm_seed.sh log, detection result from tools/seedtest)."""
import glob, json, os, shutil, subprocess, sys
V = os.path.dirname(os.path.dirname(os.path.abspath(__file__)))
src, sid, prop, needs = sys.argv[1:5]
confirm_logs = sys.argv[5:]
dst = os.path.join(V, "seeded", sid)
os.makedirs(dst, exist_ok=True)
for f in os.listdir(src):
    p = os.path.join(src, f)
    if os.path.isfile(p) and os.path.getsize(p) < 200000 and not f.endswith(".log") and not f.startswith("make"):
        shutil.copy2(p, os.path.join(dst, f))
conf = None
for lg in confirm_logs:
    for line in open(lg):
        try:
            d = json.loads(line)
        except Exception:
            continue
        if d.get("seed", "").rstrip("/") == os.path.abspath(src).rstrip("/"):
            conf = d
out = subprocess.run([os.path.join(V, "tools", "seedtest"), os.path.join(src, "patch.diff")], stdout=subprocess.PIPE, text=True).stdout
det = sorted({" ".join(l.split()[0:1] + l.split()[2:4]) for l in out.splitlines() if "NEW-VIOLATION" in l})
title = ""
if os.path.exists(os.path.join(src, "notes.md")):
    title = open(os.path.join(src, "notes.md")).readline().strip("# \n")
meta = {"property": prop, "title": title, "needs_to_manifest": needs,
        "confirmed_by_me": conf or "pending",
        "what_i_ran": "tools/confirm_seed.sh (scratch copy of /repo: build, demo.sh on clean copy = 0, apply patch, rebuild, demo.sh != 0, full suite 82 PASS) and tools/seedtest (all checks on a scratch copy with the patch)",
        "detected_by": det, "missed_by_all_checks": not det}
json.dump(meta, open(os.path.join(dst, "meta.json"), "w"), indent=1)
print(sid, "detected_by", det)
